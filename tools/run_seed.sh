#!/bin/sh
# tools/run_seed.sh <id> [checks...] : apply /verif/seeded/<id>/patch.diff to /repo, run the given
# checks (default: the property's own), print verdict lines, always revert.
lc=$(echo "$1" | tr A-Z a-z); shift
P=/verif/seeded/$lc/patch.diff
[ -f "$P" ] || { echo "no $P"; exit 2; }
CHECKS="$@"; [ -z "$CHECKS" ] && CHECKS=$(echo "$lc" | tr a-z A-Z | sed 's/-.*//')
cd /verif || exit 2
if ! git -C /repo diff --quiet; then echo "/repo dirty; refusing" >&2; exit 2; fi
git -C /repo apply "$P" || { echo "patch does not apply"; exit 2; }
for C in $CHECKS; do
  timeout 3000 ./check "$C" quick > /tmp/seed-$lc-$C.out 2>&1; RC=$?
  echo "$lc vs $C: exit=$RC $(grep -E 'violations by kind|machinery error|rejected at compile time|^  (hang|process abort)' /tmp/seed-$lc-$C.out | sort -u | head -3 | tr '\n' ' ')"
done
git -C /repo checkout -- .
git -C /repo clean -fdq -- src macros examples 2>/dev/null
git -C /verif checkout -- evidence 2>/dev/null
