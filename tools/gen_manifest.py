#!/usr/bin/env python3
"""Regenerates /verif/MANIFEST.json from the table below (keeps it schema-valid at all times)."""
import json, subprocess, os
HERE = os.path.dirname(os.path.dirname(os.path.abspath(__file__)))

# id -> (technique, level text, level_note, design_ref)
CHECKS = {
 "C01": ("explicit-state BFS over substitution states, lock-step Robinson unifier (E1)",
         "All states reachable by <= L successful unifications over every ordered pair of a ~110-term universe (variables, literals, proper/improper lists, five compound kinds, nests); every transition of the real State::unify / unify_rec is compared with a reference unifier (success iff unifiable, sides identical, mgu up to renaming, no cyclic binding, extension = new bindings, pre-state untouched); level-1 pairs also through the public query iterator.",
         "Term universe and depth L=2 (quick) / 3 (thorough) as reported in the evidence; reference = Robinson unification on a plain AST.",
         "4/C01"),
 "C02": ("explicit-state BFS over constraint states + deviation-bounded schedule exploration + bounded-exhaustive programs (E1 x E2, E3)",
         "Every state reachable by <= L postings of `t1 == t2` / `t1 != t2` over the term alphabet is compared, on every transition, with the order-free set of posted goals by tabulating ground instances over a finite universe; every distinct state's history is re-run as a public query under every hash-order schedule with <= d deviations; programs with conde and hidden fresh variables are compared with reference paths.",
         "Finite universe (constants, fresh atoms, short lists): can miss but never invent a difference; L=2,d=1 quick / L=3,d=2 thorough.",
         "4/C02"),
 "C03": ("bounded-exhaustive reification programs, structural oracle on every answer (E3)",
         "Query variables bound to 13 term shapes (lists, improper/nested lists, repeated variables, five compound kinds, nested and recursive compounds) x a second query variable sharing variables x 12 constraint sets (incl. hidden-variable and multi-binding disequalities) x statement orders: every answer variable is a reified `_`, the tuple equals the reference substitution up to renaming, reported constraints mention only the answer's variables, and LResult::constraints() returns every reported constraint with an operand occurring anywhere in the result term.",
         "constraints(): a constraint is required when one of its operands (left-hand side, or a right-hand side that is itself a variable) occurs in the term; constraints merely mentioning a variable deeper in a right-hand side are allowed but not required. is_any_except between result variables is compared with the reported constraints.",
         "4/C03"),
 "C04": ("bounded-exhaustive programs executed in every permutation of every conjunction/disjunction x schedules (E3 x E2)",
         "Pure programs (literals, conde 2-3 arms, nested conde, Disj chains, fresh with hidden variables), FD programs (T1/T2) and mixed conde+FD programs are executed in every permutation of every conjunction, conde arm list and arm body (<= 4 children; simultaneous permutations capped); answer multisets (instance sets over a finite universe / FD tuples) agree across permutations and with the order-free reference or brute force; FD variants also under hash-order schedules.",
         "Permutation products capped at 200/120 variants per program; finite universe for instance sets.",
         "4/C04"),
 "C05": ("exhaustive engine exploration with scripted leaf goals, ordered reference interpreter (E4)",
         "Every goal-tree shape up to the leaf bound over DFSConj/cond/DFSDisj/fresh/closure with scripted leaves (answer / lazy-step scripts in three stream encodings), DFS-typed at top level, under dfs{} in a BFS parent and as a conjunct: the answer sequence equals the reference depth-first interpreter's position by position.",
         "Leaf bound 3 (quick) / 4 (thorough); scripts up to length 3; leaves are harness goals built from the public Stream constructors.",
         "4/C05"),
 "C06": ("exhaustive engine exploration with scripted leaf goals + per-step stream invariant (E4)",
         "Same tree space in BFS typing: multiset of answers equals the reference and the depth-first run; at every single engine step emitted + drain(clone(stream)) equals the final multiset; for infinite producers/divergers and loop{} prefixes every answer of a bounded prefix is derivable and unrepeated.",
         "Leaf bound 3/4; infinite streams judged on a bounded prefix only.",
         "4/C06"),
 "C07": ("exhaustive engine exploration, bounded liveness under a step budget (E4 + hook H2)",
         "All disjunctions of 2-3 (thorough 2-4) branches (also wrapped in dfs{} and as dfs{[branch, leaf]}) drawn from finite / infinitely producing / silently diverging scripted goals, in conde, binary Disj, nested conde and loop{} form and five positions: every answer a branch gives alone after s steps appears in the whole program within 64*2^(k*depth)*(s+1) engine steps. Long horizon: always() / never() / loop{} generators in disjunctions through the public query iterator on a 2 MiB stack for 10^5 (thorough 10^6) answers: every branch keeps its fair share, the search never stops yielding (budget, panic, stack exhaustion).",
         "Fairness as bounded liveness; the step bound and the horizon are part of the claim.",
         "4/C07"),
 "C08": ("exhaustive engine exploration of clause lists, committed-choice reference with engine-order differential (E4)",
         "All conda/condu clause lists of 1-3 clauses and onceo bodies whose heads/rests are scripted (0/1/many answers, lazily produced, infinite, diverging) or the static Goal::succeed()/Goal::fail() objects are compared with the soft-cut / committed-choice semantics; the head's first answer in engine order is obtained from the engine by running the head alone.",
         "Heads are leaves or two-leaf conde/conj/disj trees; the alternative build goes through the matcha/matchu operator entry points (their surface form is covered by C13).",
         "4/C08"),
 "C09": ("E2 schedule exploration for determinism + bounded-liveness runs through the public iterator (E2 + E4)",
         "(a)(b) every disjunction of 1-3 branches from finite goals, loop{} producers, loop{false} divergers, nested conde, producers behind closures, dfs{} blocks whose first goal diverges silently / rejects every candidate of an infinite producer / produces for ever, at top level / under fresh / after an always-like prefix / as binary Disj, through Query::run: take(n) delivers n answers within the step budget whenever n exist; finite programs end with exactly their answers and stay ended. (c) FD programs with >= 2 constraints, hidden-FD-variable programs and multi-binding disequality programs run twice unscheduled and under every schedule of all 8 hooked hash-iteration sites with <= d deviations plus all-reversed: identical canonical answer sequences.",
         "A second OS process is not steered; iteration orders are enumerated at the hooked sites instead (superset up to the deviation bound). d=1 quick / 2 thorough. Determinism families include hidden FD variables that a tree disequality connects to the answer.",
         "4/C09"),
 "C10": ("bounded-exhaustive metamorphic comparison of combined vs separate branch runs x schedules (E3 x E2)",
         "For 7 prefixes and every ordered pair (plus a stride of flat/nested triples) of 24 branch goals, alone and followed by one of 4 shared continuations entered by the states of both branches, (bindings, disequalities, domain narrowing, FD propagators incl. distinctfd's shared constraint object, CLP(Z), user-state updates, nested conde, project, fail) the multiset of final states of `prefix, conde{A,B}` — reified terms, reported disequalities, per-branch user trail and open-constraint counter of an instrumented User — equals the union of the branches run alone.",
         "Differential oracle: judges isolation, not the correctness of each branch goal; d=0 quick / 1 thorough.",
         "4/C10"),
 "C11": ("bounded-exhaustive generator x body x nesting programs around project, differential against the body alone (E3)",
         "12 generators reaching the project goal with 1..4 states (incl. the projected variable aliased first and bound later, lists completed afterwards) x 7 bodies (relational reads, an fngoal inspecting the projected term, reads delayed behind closures and branching) x 7 nestings (four direct, three with the project goal behind a closure where multi-visit must work): for ground values `project |x| { body }` has the answers of `body` and never panics.",
         "Project goals are built as the macro builds them (names rebound to Projection terms once). One known finding (a project goal reached twice panics).",
         "4/C11"),
 "C12": ("bounded-exhaustive collections x bodies for `for`/everyg, differential against the explicit conjunction and the reference semantics (E3)",
         "17 collections of 0..4 terms (ground, repeated in adjacent and non-adjacent positions, shared variables, nested) as Vec<LTerm> and as LTerm list x 16 bodies (incl. a choice on a fresh variable of the body, multi-answer relation calls) x 3 contexts: answers equal those of the explicit conjunction of instantiated bodies (instance-set multisets) and of the reference semantics; the empty collection behaves as true.",
         "The collection is fixed at goal construction (documented reading).",
         "4/C12"),
 "C13": ("bounded-exhaustive surface programs generated, compiled with the current macros and compared with a reference interpreter (E5)",
         "match / matche / matcha / matchu expressions over a pattern alphabet (wildcard, names, repeated names, literals, [], proper/improper list patterns, tuple-struct / named-struct / nested compound patterns, a name equal to an outer variable, alternatives binding different name sets) x matched terms x bodies as single arms, and two/three-arm expressions with alternatives under all four operators, emitted as Rust source, compiled against /repo's proc-macros, run, and compared with the reference expansion (arm-local fresh names; committed choice for matcha/matchu).",
         "Identifiers from a fixed name set; programs the Rust type system cannot express (compound pattern against a list subject) are not generated.",
         "4/C13"),
 "C14": ("bounded-exhaustive surface programs generated, compiled with the current macros and compared with a reference interpreter (E5)",
         "The clause grammar as surface syntax: every literal kind in argument / list item / improper tail / nested position, `_`, nested lists, constructors on both sides of == and != and as relation arguments in tree-term / {expr} / lterm! forms; conjunctions, conde with bare and bracketed arms, fresh, closure, onceo / conda / condu / dfs, loop{} prefixes, library and user relation calls, for over Vec and LTerm list, project; proto_vulcan_query! with 1-3 query variables reported in declaration order; compared with the reference interpreter on the same AST. A generated program that no longer compiles is attributed to its case and reported.",
         "Shapes the surface cannot express on the pinned tree (closure nested in closure over the same variable, `for` bodies mentioning outer variables, negative literals) are not generated; see DESIGN.md.",
         "4/C14"),
 "C15": ("bounded-exhaustive surface programs and their alpha-renamed twins compiled with the current macros (E5)",
         "Programs with shadowing (nested fresh clauses reusing a name, a fresh clause shadowing a query variable's name), equal names in sibling scopes, fresh clauses in conde arms and closures, pattern arms binding names of an enclosing fresh clause, pattern arms shadowing their own scrutinee, and recursive relations whose unfoldings introduce equally named variables, each compiled as written and with every binder renamed to a unique name: both have the answers of the lexically scoped reference interpreter.",
         "Names from a fixed set; hygiene against arbitrary user identifiers is out of reach.",
         "4/C15"),
 "C16": ("bounded-exhaustive FD programs x deviation-bounded hash-order schedules vs brute force (E3 x E2)",
         "Every program of four FD tiers (T4: plusz/timesz over variables carrying finite domains; T2 incl. asymmetric domains around a distinctfd constant and one unification binding a chain of variables; T3 incl. hidden variables needing a joint labeling; one constraint: all kinds x all operand patterns/aliasings/constants x all domain assignments x all statement orders; two-three constraints mixed with ==, pre-bound and fully ground operands; answers shaped as lists/compounds, hidden variables, conde) is run under every schedule of the hash-ordered iterations with <= d deviations plus all-reversed; every answer must be a brute-force solution.",
         "Domains inside [-2, 5]; d=1 quick (T1) / 2; well-formed programs only (every FD operand has a domain or is an integer).",
         "4/C16"),
 "C17": ("bounded-exhaustive FD programs x deviation-bounded hash-order schedules vs brute force (E3 x E2)",
         "Same programs and schedules as C16; the multiset of query-variable tuples must equal the brute-force solutions projected onto the query variables, each exactly once (including list-, improper-list- and compound-shaped answers and hidden FD variables).",
         "As C16.",
         "4/C16-C17"),
 "C18": ("explicit-state BFS over FiniteDomain representations, lock-step BTreeSet model (E1)",
         "Every representation reachable from all intervals / From<Vec> inputs / sparse sets of a small window (and of windows at the isize extremes) under all operations and all window predicates is compared with a BTreeSet model on every transition and every observer; exhaustive within the window.",
         "Model is BTreeSet<i64>; window width 9 (quick) / 11 (thorough); full-width interval only through O(1) operations.",
         "4/C18"),
 "C19": ("bounded-exhaustive CLP(Z) programs over all operand/groundness patterns and statement orders vs integer arithmetic (E3)",
         "plusz/timesz x every operand pattern over three variables and {-3,-2,0,1,2,6} (thorough: 8 values; all aliasings) x every groundness pattern x every statement order, chains of two constraints, and constraints one of whose operands is unified with a partner variable by a separate == (both orientations, bound directly or through the partner): answers equal the integer-arithmetic closure (ground equations hold; two ground operands determine the third, fail, or leave it constrained when every integer works); no panic.",
         "Values in {-3,-2,0,1,2,6} (thorough adds -4,-1) plus single constraints with operands at the ends of the isize range whose exact result still fits; aliased operands with fewer than two ground positions are judged for soundness only.",
         "4/C19"),
 "C20": ("explicit-state BFS on compound terms and on their tagged-list twins + twin execution of reification/FD programs (E1 + E3)",
         "(a) the C01 exploration over a universe with named, tuple-like, nested, recursive #[compound] structs, Rust tuples, Option (top-level and as a field of a compound struct: Some / None as two structures of one type), run on the compound terms and on the isomorphic tagged-list encoding, each transition against the reference unifier; (b) the C03 programs and the FD labeling programs with compound-shaped answers executed as written and with every constructor encoded as a tagged list: decoded answers (terms and reported constraints) coincide.",
         "A top-level Option is read as the library converts it (None = [], Some(x) = x); an Option field is a nested object; compound values are built through the generated Rust types.",
         "4/C20"),
 "C21": ("bounded-exhaustive term pairs and element sequences vs structural equality and a Vec model (E3)",
         "Every ordered pair of a ~600-term universe (all literal kinds, variables and second constructions, [], proper/improper/nested lists, compounds): == equals structural equality with variable identity, symmetric, equal => equal hash under SipHash and a boundary-recording hasher; every element sequence of length 0..4 (thorough 0..5) over 11 element values with and without 4 improper tails: constructors, iter / IntoIterator, Index, IndexMut, iter_mut, head/tail, predicates, contains, extend, Display against the Vec model.",
         "Hash under two hashers; extend on proper lists only.",
         "4/C21"),
 "C22": ("bounded-exhaustive statement sequences with an instrumented User type and per-statement probes x schedules (E3 x E2)",
         "All ordered sequences of 2-3 statements of a 14-statement == / != alphabet (incl. subsuming, chained and multi-binding disequalities), all 4-statement sequences of the first ten (thorough: of the whole alphabet, and all 5-statement sequences of the first eight), sequences with a two-arm conde, and FD programs run with a User type counting with_constraint/take_constraint and logging process_extension; probes before/after every statement and every answer state: with - take == stored constraints; each successful == triggers process_extension once with exactly unify_rec's new bindings; the statements seen by an answer's user state form one program path (per-branch cloning).",
         "Statement alphabet of 14 tree + 7 FD statements; d=1 quick / 2 thorough on the store iteration sites. Plus 14 hand-written programs over two user terms with the unify hook at its default (a user term unifies with variables only).",
         "4/C22"),
 "C23": ("panic monitor re-running every family of the framework under catch_unwind (all explorers)",
         "Every generator of the framework (20 families: unification, disequality, reification, reordering, engine exploration, committed choice, iteration, isolation, project, for, FD tiers, CLP(Z), compound twins, LTerm API, user hooks, list relations, FiniteDomain) is re-run with its well-formedness filter; every panic other than the harness's step-budget signal is reported with its site; process aborts are attributed by the supervisor.",
         "Coverage is the union of the other checks' coverage at the same tier. One known finding (project).",
         "4/C23"),
 "C24": ("bounded-exhaustive argument modes of every list relation vs Vec definitions on ground instances (E3)",
         "member, member1, append, rember, permute, distinct, cons, first, rest, empty in every combination of ground / partially ground / fresh arguments over short lists on {1,2,3} (plus aliased arguments): every instance of every answer satisfies the Vec definition; every satisfying ground tuple of a small universe is covered by an answer; member one answer per position, member1 one per distinct value; arguments that cannot be lists as written ([1 | 7], 7) in the positions permute / append / distinct walk to the end have no answer.",
         "Non-terminating modes judged on 120 answers / 400000 steps; instances that put a non-list into an open tail the relation never reaches are not judged. One known finding (permute).",
         "4/C24"),
}
NOT_APPLICABLE = {}

def main():
    props = [json.loads(l) for l in open(os.path.join(HERE, "properties.jsonl"))]
    commits = subprocess.run(["git", "-C", "/repo", "log", "--format=%H %s"], capture_output=True, text=True).stdout.splitlines()
    hook_commits = [c.split()[0] for c in commits if " verif hook " in c]
    checks = []
    for p in props:
        pid = p["id"]
        if pid not in CHECKS:
            continue
        tech, text, note, ref = CHECKS[pid]
        checks.append({
            "property_id": pid,
            "quick_cmd": f"./check {pid} quick",
            "thorough_cmd": f"./check {pid} thorough",
            "evidence_file": f"/verif/evidence/{pid}.json",
            "replay_cmd_template": f"./check {pid} quick --replay {{path}}",
            "engine": "pvmc",
            "level_claimed": {"category": "model_checking", "text": text, "design_ref": f"DESIGN.md section {ref}"},
            "level_note": note,
            "technique": tech,
        })
    na = [{"property_id": p["id"], "reason": NOT_APPLICABLE.get(p["id"], "check not built yet in this round (planned, see DESIGN.md section 4); not claimed until it runs")}
          for p in props if p["id"] not in CHECKS]
    m = {
        "version": 1,
        "setup_cmd": "cd /verif/harness && CARGO_NET_OFFLINE=true CARGO_TARGET_DIR=/verif/.target cargo build --offline -p pvmc",
        "hooks": {
            "guard": "cargo feature `verif` of proto-vulcan (default off)",
            "enable": "the harness crate depends on proto-vulcan by path (/repo) with features = [\"verif\"], so every check rebuilds /repo's working tree with the hooks on",
            "baseline_off_cmd": "cd /repo && cargo test --workspace --no-fail-fast --offline",
            "source_commits": list(reversed(hook_commits)),
            "add_only": True,
        },
        "engines": [
            {"name": "pvmc", "path": "/verif/harness/pvmc", "serves_properties": sorted(CHECKS.keys()),
             "kind_free_text": "hand-rolled explicit-state / schedule / bounded-exhaustive explorers driving the real library through its public API plus the verif hooks; reference models in Rust"},
        ],
        "checks": checks,
        "not_applicable": na,
        "notes": "All commands run from /verif. Exit 2 = machinery failure (never a verdict). Known findings: /verif/known_findings.json.",
    }
    json.dump(m, open(os.path.join(HERE, "MANIFEST.json"), "w"), indent=1)
    print("checks:", [c["property_id"] for c in checks], "not_applicable:", len(na))

main()
