#!/usr/bin/env python3
"""Regenerates /verif/MANIFEST.json from the table below (keeps it schema-valid at all times)."""
import json, subprocess, os
HERE = os.path.dirname(os.path.dirname(os.path.abspath(__file__)))

# id -> (technique, level text, level_note, design_ref)
CHECKS = {
 "C18": ("explicit-state BFS over FiniteDomain representations, lock-step BTreeSet model (E1)",
         "Every representation reachable from all intervals / From<Vec> inputs / sparse sets of a small window (and of windows at the isize extremes) under all operations and all window predicates is compared with a BTreeSet model on every transition and every observer; exhaustive within the window.",
         "Model is BTreeSet<i64>; window width 7 (quick) / 9 (thorough); full-width interval only through O(1) operations.",
         "4/C18"),
}
NOT_APPLICABLE = {}

def main():
    props = [json.loads(l) for l in open(os.path.join(HERE, "properties.jsonl"))]
    commits = subprocess.run(["git", "-C", "/repo", "log", "--format=%H %s"], capture_output=True, text=True).stdout.splitlines()
    hook_commits = [c.split()[0] for c in commits if " verif hook " in c]
    checks = []
    for p in props:
        pid = p["id"]
        if pid not in CHECKS:
            continue
        tech, text, note, ref = CHECKS[pid]
        checks.append({
            "property_id": pid,
            "quick_cmd": f"./check {pid} quick",
            "thorough_cmd": f"./check {pid} thorough",
            "evidence_file": f"/verif/evidence/{pid}.json",
            "replay_cmd_template": f"./check {pid} quick --replay {{path}}",
            "engine": "pvmc",
            "level_claimed": {"category": "model_checking", "text": text, "design_ref": f"DESIGN.md section {ref}"},
            "level_note": note,
            "technique": tech,
        })
    na = [{"property_id": p["id"], "reason": NOT_APPLICABLE.get(p["id"], "check not built yet in this round (planned, see DESIGN.md section 4); not claimed until it runs")}
          for p in props if p["id"] not in CHECKS]
    m = {
        "version": 1,
        "setup_cmd": "cd /verif/harness && CARGO_NET_OFFLINE=true CARGO_TARGET_DIR=/verif/.target cargo build --offline -p pvmc",
        "hooks": {
            "guard": "cargo feature `verif` of proto-vulcan (default off)",
            "enable": "the harness crate depends on proto-vulcan by path (/repo) with features = [\"verif\"], so every check rebuilds /repo's working tree with the hooks on",
            "baseline_off_cmd": "cd /repo && cargo test --workspace --no-fail-fast --offline",
            "source_commits": list(reversed(hook_commits)),
            "add_only": True,
        },
        "engines": [
            {"name": "pvmc", "path": "/verif/harness/pvmc", "serves_properties": sorted(CHECKS.keys()),
             "kind_free_text": "hand-rolled explicit-state / schedule / bounded-exhaustive explorers driving the real library through its public API plus the verif hooks; reference models in Rust"},
        ],
        "checks": checks,
        "not_applicable": na,
        "notes": "All commands run from /verif. Exit 2 = machinery failure (never a verdict). Known findings: /verif/known_findings.json.",
    }
    json.dump(m, open(os.path.join(HERE, "MANIFEST.json"), "w"), indent=1)
    print("checks:", [c["property_id"] for c in checks], "not_applicable:", len(na))

main()
