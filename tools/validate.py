#!/usr/bin/env python3
"""Validates MANIFEST.json and every evidence file against the schemas (python3-vt has jsonschema)."""
import json, sys, glob, jsonschema
m = json.load(open('/verif/MANIFEST.json'))
jsonschema.validate(m, json.load(open('/root/.vp/MANIFEST.schema.json')))
es = json.load(open('/root/.vp/EVIDENCE.schema.json'))
bad = 0
for c in m['checks']:
    f = c['evidence_file']
    try:
        jsonschema.validate(json.load(open(f)), es)
    except Exception as e:
        bad += 1
        print('INVALID', f, str(e)[:200])
print('manifest ok; checks:', len(m['checks']), 'invalid evidence:', bad)
sys.exit(1 if bad else 0)
