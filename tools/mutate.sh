#!/bin/sh
# tools/mutate.sh <patch-file> <ID> [tier] : apply a patch to /repo, run the check, always revert.
# Prints the check's verdict line(s). Never leaves /repo modified.
P="$1"; ID="$2"; TIER="${3:-quick}"
cd /verif || exit 2
if ! git -C /repo diff --quiet; then echo "/repo has uncommitted changes; refusing" >&2; exit 2; fi
git -C /repo apply "$P" || { echo "patch does not apply" >&2; exit 2; }
./check "$ID" "$TIER" > /tmp/mutate-$$.out 2>&1; RC=$?
git -C /repo checkout -- . 
git -C /repo clean -fdq -- src macros 2>/dev/null
grep -E "^VIOLATION|violations by kind|machinery error|new violation" /tmp/mutate-$$.out | head -8
echo "exit=$RC"
rm -f /tmp/mutate-$$.out
# the evidence file was rewritten by a run on a mutated tree: restore the committed one
git -C /verif checkout -- evidence 2>/dev/null
exit 0
