#!/bin/sh
# tools/lab_seed.sh <name> <patch.diff> <checks...> : run checks against a patched COPY of /repo
# (scratch worktree + scratch copy of the harness under /tmp/lab/<name>), so that several
# seeded changes can be tried in parallel without touching /repo. Lab use only: the recorded
# results come from tools/run_seed.sh, which applies the patch to /repo itself.
N="$1"; P="$2"; shift 2
L=/tmp/lab/$N
git -C /repo worktree remove --force "$L/repo" 2>/dev/null; rm -rf "$L"; mkdir -p "$L/verif"
git -C /repo worktree add -q --detach "$L/repo" "${LAB_BASE:-HEAD}" || exit 2
cp /repo/Cargo.lock "$L/repo/" 2>/dev/null
git -C "$L/repo" apply "$P" || { echo "$N: patch does not apply"; git -C /repo worktree remove --force "$L/repo"; rm -rf "$L"; exit 2; }
V=${LAB_VERIF:-$(cat /tmp/lab/SRC 2>/dev/null || echo /verif)}
cp -r $V/check $V/harness $V/surface $V/tools $V/known_findings.json "$L/verif/"
mkdir -p "$L/verif/evidence"
sed -i "s|path = \"/repo\"|path = \"$L/repo\"|" "$L/verif/harness/pvmc/Cargo.toml" "$L/verif/harness/pvmc-surface/Cargo.toml"
for C in "$@"; do
  S=$(date +%s)
  timeout 3000 "$L/verif/check" "$C" quick > "$L/$C.out" 2>&1; RC=$?
  echo "$N vs $C: exit=$RC $(( $(date +%s) - S ))s $(grep -E 'violations by kind|machinery error|kind=crash' "$L/$C.out" | head -2 | cut -c1-200 | tr '\n' ' ')"
  cp "$L/$C.out" /tmp/lab/$N-$C.out
done
[ -n "$LAB_KEEP" ] || { git -C /repo worktree remove --force "$L/repo"; rm -rf "$L"; }
