#!/bin/sh
# tools/run_all_seeds.sh [file] : regression of the machinery against every seeded change that
# applies to the current HEAD (seeded/checks.txt). Sequential: each patch is applied to /repo,
# the listed checks run (quick tier), and the patch is undone. Prints one verdict line per
# (seed, check); a line with exit=0 is a MISS.
F="${1:-/verif/seeded/checks.txt}"
grep -v '^#' "$F" | while read id checks; do
  [ -z "$id" ] && continue
  /verif/tools/run_seed.sh $id $checks
done
