#!/bin/sh
# tools/confirm_seed.sh <ID> <agent-worktree> : independently confirm a seeded change.
#  - fresh scratch worktree of /repo HEAD under /tmp/wt/verify-<id>
#  - demo passes without the patch, the repository's test suite passes with it, demo fails with it
#  - on success copies patch.diff + demo into /verif/seeded/<id>/ and prints CONFIRMED
ID="$1"; WT="$2"
lc=$(echo "$ID" | tr A-Z a-z)
V=/tmp/wt/verify-$lc
[ -f "$WT/_seeded/patch.diff" ] || { echo "no patch.diff in $WT/_seeded"; exit 2; }
DEMO="$WT/_seeded/seeded_demo.rs"; [ -f "$DEMO" ] || DEMO="$WT/examples/seeded_demo.rs"
[ -f "$DEMO" ] || { echo "no demo"; exit 2; }
git -C /repo worktree remove --force "$V" 2>/dev/null; rm -rf "$V"
git -C /repo worktree add -q --detach "$V" HEAD || exit 2
cp /repo/Cargo.lock "$V/"; cp "$DEMO" "$V/examples/seeded_demo.rs"
cd "$V" || exit 2
export CARGO_TARGET_DIR=${SEED_TARGET:-/tmp/wt/verify-target}
timeout 600 cargo run --offline --example seeded_demo >/tmp/wt/verify-$lc-demo-orig.log 2>&1; R0=$?
if ! git apply "$WT/_seeded/patch.diff"; then echo "PATCH DOES NOT APPLY to /repo HEAD"; exit 1; fi
timeout 1200 cargo test --workspace --offline --no-fail-fast >/tmp/wt/verify-$lc-suite.log 2>&1; RS=$?
timeout 600 cargo run --offline --example seeded_demo >/tmp/wt/verify-$lc-demo-patched.log 2>&1; R1=$?
echo "demo without patch: exit $R0; suite with patch: exit $RS ($(grep -c '^test result: ok' /tmp/wt/verify-$lc-suite.log) ok groups, $(grep '^test result' /tmp/wt/verify-$lc-suite.log | head -1)); demo with patch: exit $R1"
cd /verif
git -C /repo worktree remove --force "$V"; rm -rf "$V"
if [ $R0 -eq 0 ] && [ $RS -eq 0 ] && [ $R1 -ne 0 ]; then
  mkdir -p /verif/seeded/$lc
  cp "$WT/_seeded/patch.diff" /verif/seeded/$lc/patch.diff
  cp "$DEMO" /verif/seeded/$lc/seeded_demo.rs
  [ -f "$WT/_seeded/notes.md" ] && cp "$WT/_seeded/notes.md" /verif/seeded/$lc/agent_notes.md
  echo CONFIRMED
  exit 0
fi
echo NOT-CONFIRMED
exit 1
