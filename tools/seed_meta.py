#!/usr/bin/env python3
"""Writes /verif/seeded/<id>/meta.json for every seeded change from the table below, the
confirmation log (seeded/confirmations.txt, written by tools/confirm_seed*.sh) and the verdicts
of the checks (seeded/results.txt: lines `<id> vs <check>: exit=<rc> <kinds>` as printed by
tools/run_seed.sh with the patch applied to /repo itself)."""
import json, os, re, sys

ROOT = '/verif/seeded'

SEEDS = {
 'c01': dict(prop='C01', site='src/state/substitution.rs SMap::occurs_check',
   change='tail recursion over the list spine turned into a loop that forgets to walk the tail through the substitution',
   needs='x == [.. | t] where the tail variable t was bound by an EARLIER unification to a term containing x; x in head position, a raw tail x, or the reverse order are unaffected'),
 'c02': dict(prop='C02', site='src/state/constraint/store.rs ConstraintStore::push_and_normalize',
   change='receiver and argument of subsumes swapped in the redundancy test of a newly posted disequality',
   needs='a strictly stronger disequality (x != 2) posted AFTER a weaker multi-pair one ([x, 1] != [2, y]) in the same conjunction; the other posting order, single-pair or unrelated disequalities are unaffected'),
 'c03': dict(prop='C03', site='src/state/substitution.rs SMap::reify_compound',
   change='each field of a compound is reified from the stale substitution instead of the accumulator',
   needs='an answer containing a #[compound] term with >= 2 fields where a field other than the last walks to an unbound variable that is not also reified later through a list position'),
 'c04': dict(prop='C04', site='src/relation/diseq.rs DisequalityConstraint::run',
   change='the pairs of a stored disequality are re-unified against independent clones of the state instead of one threaded test state',
   needs='a disequality whose unifier chains a variable through two pairs ([x, y] != [y, 2]) posted BEFORE x is bound, a binding that makes the joint unification impossible, then a value for y; posting the disequality after the bindings is unaffected'),
 'c05': dict(prop='C05', site='src/operator/conj.rs DFSConj::from_array',
   change='fold instead of rfold: the goals of a bracketed conjunction run in reverse order',
   needs='a bracketed conjunction [g1, g2] with >= 2 goals placed DIRECTLY as a clause of dfs { } with at least two multi-answer goals; dfs { a, b }, the same conjunction one level down and all BFS queries are unaffected'),
 'c06': dict(prop='C06', site='src/stream.rs Stream::mplus (Cons case) + LazyStream::is_finished',
   change='an immature Delay(Lazy(..)) remainder is taken for exhausted and dropped',
   needs='a disjunction that yields an answer immediately while it still has unstarted clauses (a statically true non-last clause, or a dfs { cond { .. } }) nested directly as a clause of another interleaved disjunction whose siblings still have work'),
 'c07': dict(prop='C07', site='src/stream.rs StreamEngine::step (Lazy::Pause arm)',
   change='chains of pauses are collapsed inside one step: a goal that only re-pauses is started again in a loop',
   needs='a silent diverger whose recursion consists of pauses only (a closure that calls straight back into itself, optionally through fresh / single-goal conjunctions) sitting in a disjunction whose other branches have answers; never(), always() and loop { } are unaffected',
   note='one engine step never returns: the check reports it as a hang (kind=crash) of the cases in flight'),
 'c08': dict(prop='C08', site='src/operator/conda.rs Conda::from_conjunctions',
   change='clauses containing a statically failing goal anywhere are pruned, not only clauses that are empty',
   needs='conda / matcha with a clause whose NON-head goal is the static Goal::Fail (false, fail(), [g, false]), whose head succeeds, followed by a later clause whose head succeeds; dynamically failing goals (5 == 6) do not trigger it'),
 'c09': dict(prop='C09', site='src/stream.rs StreamEngine::step (Lazy::BindDFS arm)',
   change='the bound stream of a depth-first conjunction is advanced with Solver::peek until it matures instead of one step',
   needs='a dfs { g1, g2 } nested below an interleaving disjunction that has another branch with answers, where g1 never matures (diverges silently or an infinite producer whose every candidate is rejected); top-level dfs and productive first goals are unaffected'),
 'c10': dict(prop='C10', site='src/operator/closure.rs Closure::solve',
   change='the closure body is built on first entry and cached in a OnceCell instead of rebuilt on every entry',
   needs='a closure whose body contains project |x| { .. }, and the SAME closure goal instance entered by the states of two branches (conde { A, B }, rel(x, q)); closures without project, recursion and top-level project are unaffected'),
 'c11': dict(prop='C11', site='src/operator/project.rs Project::solve',
   change='the binding of the projected variable is looked up directly and only structured terms are walked: a var-to-var binding is not followed',
   needs='the projected variable unified with another still-unbound variable FIRST (x == y records x -> y) and the value arriving through that variable LATER (y == 7); value first, direct bindings and the other orientation are unaffected'),
 'c12': dict(prop='C12', site='src/operator/everyg.rs Everyg::solve',
   change='Vec::dedup() on the collection before the body goals are built',
   needs='a collection with two structurally equal terms in ADJACENT positions ([q, q]) and a body with more than one answer for that term; deterministic bodies, distinct elements and [q, r, q] are unaffected'),
 'c13': dict(prop='C13', site='macros/src/lib.rs PatternMatchOperator::to_tokens',
   change='the pattern-variable set is allocated once per arm instead of once per alternative, so it accumulates over the alternatives',
   needs='an arm with >= 2 alternatives where an EARLIER alternative binds a name that a LATER one does not mention, a body that uses the name, an outer variable of that name in scope, and the later alternative being the one that matches',
   note='generated programs of that shape no longer type-check (the redeclared name is never constrained): reported as rejected-by-macros'),
 'c14': dict(prop='C14', site='macros/src/lib.rs impl Parse for TreeTerm',
   change='a list literal in tail position is spliced into the enclosing list; an improper literal tail is spliced too but the result is emitted as a proper list',
   needs='a list literal whose tail is itself a literal improper list, [a | [b | c]]; flat improper lists, proper literal tails and improper lists in element position are unaffected'),
 'c15': dict(prop='C15', site='macros/src/lib.rs PatternMatchOperator::to_tokens',
   change='the alias of the matched term is bound after the pattern variables are declared',
   needs='a pattern arm one of whose names equals a variable occurring in the matched term (match l { [_ | l] => .. }, match x { x => .. }); shadowing any other outer variable is unaffected'),
 'c16': dict(prop='C16', site='src/state/mod.rs State::exclude_from_domain',
   change='the narrowed domain is stored directly (replacing) instead of intersected with the currently stored domain, using a snapshot taken before the loop',
   needs='distinctfd over a list with a known number and two unbound elements where excluding the number reduces an EARLIER element to a singleton, whose binding lets a previously posted constraint (ltefd(a, b)) narrow a LATER element and drop itself; the stale overwrite then regrows that domain'),
 'c17': dict(prop='C17', site='src/relation/clpfd/timesfd.rs quotient_bounds',
   change='divisor ranges with zero as an end point take the four-corner computation, whose placeholder for division by zero is only right for one sign',
   needs='timesfd with a factor whose domain has zero as an end point (0..=k or -k..=0), product bounds that exclude zero when the constraint runs, and the opposite sign combination (negative product with 0..=k); depends on labeling order'),
 'c18': dict(prop='C18', site='src/state/fd.rs impl From<Vec<isize>> for FiniteDomain',
   change='dedup() before sort: non-adjacent repeats survive in the stored sparse vector',
   needs='a sparse domain built from input that repeats a value non-adjacently ([3, 1, 3]); sorted input, input without repeats and adjacent repeats are unaffected'),
 'c19': dict(prop='C19', site='src/relation/clpz/plusz.rs PlusZConstraint::run',
   change='the computed first operand is stored under the raw operand instead of the walked variable',
   needs='plusz decided in the pattern (var, ground, ground) whose first operand was earlier unified with another still-unbound variable written r == y (records r -> y): the alias is overwritten and y stays unbound',
   base='2e8ddef', note='written against the tree before fix d4bd21f (plusz/timesz now bind through State::unify, which walks both sides, so the seeded line no longer exists): confirmed and run against the checks in a scratch worktree at 2e8ddef with tools/lab_seed.sh (LAB_BASE=d4bd21f~1)'),
 'c20': dict(prop='C20', site='src/state/unification.rs unify_rec_compound',
   change='children of two compound objects are unified with zip, which stops at the shorter side',
   needs='an Option<..> FIELD of a #[compound] struct holding Some(_) on one side and None on the other (same Rust type, different number of children) with all other fields unifiable; every other compound unification is unaffected'),
 'c21': dict(prop='C21', site='src/lterm.rs impl PartialEq for LTerm (Cons, Cons)',
   change='lists are compared element by element through LTerm::iter(), which yields an improper tail as a last element and nothing for the closing []',
   needs='comparing an improper list [e1..en | t] with the proper list [e1..en, t] (directly, nested, through contains or as hash keys)'),
 'c22': dict(prop='C22', site='src/state/constraint/store.rs ConstraintStore::push_and_normalize',
   change='stored constraints subsumed by a new disequality are removed with retain() and no longer returned as dropped',
   needs='a User type implementing the hooks plus a new tree disequality that subsumes a stored one (general after specific; a stored one that shrinks after a binding; re-insertion at reification)'),
 'c23': dict(prop='C23', site='src/state/fd.rs FiniteDomain::intersect (Sparse x Interval)',
   change='binary-search rewrite indexes v[first] without checking first == v.len()',
   needs='a sparse domain meeting an interval that lies entirely above every sparse element (infd(q, [1, 2, 4]), infdrange(q, 6..=9)), directly, by propagation or through unification'),
 'c24': dict(prop='C24', site='src/relation/distinct.rs',
   change='the recursive clause [first, second | rest] recurses on rest instead of [second | rest]',
   needs='a list of length >= 3 whose only equal pair is one no longer compared (the element in second position at some level and a later one): distinct([1, 2, 2]) succeeds'),
 # ---- second round (same prompt, fresh agents, tree at d4bd21f) ----
 'c01-2': dict(prop='C01', site='src/state/unification.rs unify_rec (non-variable left, variable right)',
   change='the occurs check is given the unwalked right-hand variable instead of its walked representative',
   needs='a prior variable-variable binding (x == y) so that the right-hand variable is not its own representative, then the structured term on the LEFT and the aliased variable on the right ([1 | y] == x), the structure containing the representative'),
 'c02-2': dict(prop='C02', site='src/relation/diseq.rs DisequalityConstraint::run',
   change='each pair of a stored disequality is re-unified against a fresh clone of the incoming state instead of one threaded test state (same slip as c04, found independently)',
   needs='a stored disequality with >= 2 pairs sharing a variable ([x, z] != [y, y]) posted BEFORE bindings that make the pairs mutually exclusive (x == 1, z == 2); a bogus y != 1 or y != 2 is attached depending on hash order'),
 'c03-2': dict(prop='C03', site='src/state/constraint/store.rs ConstraintStore::purify',
   change='.all() became .any(): a disequality is reported as soon as ONE of its pairs is over reified variables',
   needs='a surviving disequality with >= 2 pairs, one over answer variables only and another mentioning a fresh variable that is not part of the answer (|w| [q, r] != [1, w])'),
 'c04-2': dict(prop='C04', site='src/state/mod.rs State::process_extension_diseq / run_constraints',
   change='after a unification the FD constraints are skipped by the first constraint run "because the FD step runs them anyway", which it only does for newly bound variables that have a domain',
   needs='an FD constraint stored while an operand is an unbound variable WITHOUT a domain, that operand later bound by plain ==, and no domain variable bound afterwards: infd(y, [1,2,3]), ltefd(x, y), y == 2, x == 3 answers [3, 2]'),
 'c06-2': dict(prop='C06', site='src/operator/conde.rs Conde::solve (interleaving branch)',
   change='statically failing arms are filtered out, but the first arm is still taken from the unfiltered list (stale index): the first live arm is never visited',
   needs='a conde / match under the interleaving search whose FIRST arm is statically Fail (false, fail(), a match arm with body false) with at least one other live arm; other positions, run-time failure and DFS are unaffected'),
 'c08-2': dict(prop='C08', site='src/operator/conda.rs Conda::from_conjunctions',
   change='a clause is skipped when its head OR its rest is statically Fail',
   needs='conda / matcha with a clause whose head succeeds and whose tail contains a literal false / fail() (folded to Goal::Fail by Conj::from_vec), followed by a clause that has answers'),
 'c10-2': dict(prop='C10', site='src/state/mod.rs State::run_constraints',
   change='fast path while the constraint store is still shared with a sibling branch (Rc::strong_count > 1): the store is swapped for an empty one without take_constraint, constraints re-add themselves through with_constraint',
   needs='a User type that keeps per-state information from with_constraint / take_constraint, at least one constraint in the store before the fork, and a unification in the branch scheduled first while the sibling still shares the store'),
 'c19-2': dict(prop='C19', site='src/state/mod.rs State::unify / ConstraintStore::relevant',
   change='after a unification only the constraints whose operands() literally contain a variable of the extension are woken',
   needs='a plusz / timesz constraint posted while operand x is unbound, then x aliased in the direction x -> a (x == a), then a grounded: the extension only names a, the constraint is never woken'),
 'c05-2': dict(prop='C05', site='src/stream.rs Stream::mplus_dfs (Cons arm)',
   change='pending alternatives are re-associated to the right after an answer, with the two operands swapped in the case where the rest is already an MPlusDFS',
   needs='an answer produced while at least three choice points are stacked and the two enclosing ones both have non-empty alternatives: dfs { cond { cond { cond { q == 1, q == 2 }, q == 3 }, q == 4 } } gives 1, 2, 4, 3; two levels are unaffected'),
 'c07-2': dict(prop='C07', site='src/stream.rs StreamEngine::step (Lazy::Pause arm)',
   change='chains of bare pauses are collapsed inside one step (the same slip as c07, found independently)',
   needs='a silently diverging branch whose recursion passes only through wrapper goals (closure, fresh, single-goal conjunction), getting its turn before the sibling branch has delivered its answer',
   note='one engine step never returns: reported as a hang (kind=crash) of the cases in flight'),
 'c09-2': dict(prop='C09', site='src/state/reification.rs enforce_constraints_fd',
   change='hidden FD variables are labelled by one onceo per variable (each first surviving value is committed) instead of one onceo around the joint labeling',
   needs='at least two hidden FD variables still unbound at reification, linked so that the first value of one is not refuted by propagation but leaves the others unsatisfiable (a, b, c in 1..3, d in 1..4, distinctfd([a, b, c, d])), and the domain store yielding that variable first: the answer is dropped in some hash orders'),
 'c11-2': dict(prop='C11', site='src/operator/project.rs Project::solve',
   change='the projected variable is resolved with a shallow walk instead of walk_star',
   needs='the projected variable bound to a list or compound whose inner elements / tail are variables bound separately (x == [a, b], a == 3, b == 4) and a body that inspects the inside non-relationally'),
 'c12-2': dict(prop='C12', site='src/operator/everyg.rs Everyg::solve',
   change='the per-element goal generator is memoised per distinct term within one solve',
   needs='a collection in which an equal term occurs at least twice AND a body that introduces fresh variables at goal-construction time (an inline |y| { .. }) and is non-deterministic in them: the repeated elements share their fresh variables'),
 'c13-2': dict(prop='C13', site='macros/src/lib.rs PatternMatchOperator::to_tokens',
   change='pattern variables are collected once per arm as the union over all alternatives',
   needs='an arm with >= 2 alternatives binding different name sets, a body referring to a name bound in only one of them, an outer variable of that name, and the scrutinee matching the alternative that does not mention it',
   note='programs whose name is bound by only one alternative and unused in the body no longer compile (E0283): reported as rejected-by-macros'),
 'c14-2': dict(prop='C14', site='macros/src/lib.rs impl Parse for TreeTerm',
   change='a list literal after | is spliced into the enclosing list; for an improper literal is_proper is not cleared (the same slip as c14, found independently)',
   needs='an improper-list literal whose tail is itself an improper-list literal, [1 | [2 | x]], at any depth'),
 'c15-2': dict(prop='C15', site='macros/src/lib.rs PatternMatchOperator::to_tokens',
   change='the __term__ alias of the scrutinee is kept only for a plain variable or field access; a list or literal scrutinee is built after the pattern variables are declared',
   needs='a scrutinee that is a LIST of variables (match [l, s, ls] { .. }) and an arm whose pattern binds a variable with the same name as one of them; match l { [_ | l] => .. } on a plain variable is unaffected'),
 'c16-2': dict(prop='C16', site='src/relation/clpfd/minusfd.rs MinusFdConstraint::run',
   change='the constraint re-enters the store after the three narrowing steps instead of before them',
   needs='domains posted before minusfd and one pass that grounds all three operands through stale bounds (sparse domains with gaps: u in {0,10}, v in {0,10}, w in {3,50}), with no later == or labeling in the branch'),
 'c17-2': dict(prop='C17', site='src/relation/clpfd/timesfd.rs quotient_bounds',
   change='a zero at the end of the divisor range is trimmed before dividing, without the guard that the product excludes zero',
   needs='timesfd run while its factors are domain variables, one factor whose domain has 0 as min or max (not {0}), a product domain containing 0, and the other factor with values larger than product / non-zero divisor: (4, 0, 0) lost for x in 0..=5, y in 0..=2, z in 0..=3'),
 'c18-2': dict(prop='C18', site='src/state/fd.rs impl From<Vec<isize>> for FiniteDomain',
   change='sort + dedup only when !is_sorted(): an ascending vector with repeats keeps them',
   needs='a sparse domain built from an already ascending vector or slice with a repeated value ([1, 1, 2], [3, 3]); unsorted inputs with repeats are unaffected'),
 'c20-2': dict(prop='C20', site='src/state/unification.rs unify_rec_compound',
   change='children unified through zip (the same slip as c20, found independently)',
   needs='an Option<_> field inside a #[compound] struct holding Some(..) on one side and None on the other, all earlier fields unifying'),
 'c21-2': dict(prop='C21', site='src/lterm.rs impl PartialEq for LTerm (Cons, Cons)',
   change='self.iter().eq(other.iter()) (the same slip as c21, found independently)',
   needs='a proper list compared with an improper list that flattens to the same sequence ([1, 2, 3] vs [1, 2 | 3])'),
 'c22-2': dict(prop='C22', site='src/state/mod.rs State::with_constraint + ConstraintStore::is_redundant',
   change='early return when the new constraint is redundant, after the with_constraint hook has run and before push_and_normalize (whose dropped list feeds take_constraint)',
   needs='a User type with the hooks and a tree disequality posted while the store already holds one that subsumes it (x != 1 then [x, y] != [1, 2], or the same disequality twice); the reverse order is balanced'),
 'c23-2': dict(prop='C23', site='src/state/mod.rs State::process_extension_fd',
   change='fast path: when the bound-to term is a variable without a domain the domain is inserted under it directly, without walking it',
   needs='ONE unification that binds variables in a chain a -> b -> c ([a, b] == [b, c]) where a has a non-singleton domain and b, c none, with an FD constraint on the class still in the store at labeling: verify_all_bound panics; two separate unifications do not trigger it'),
 'c24-2': dict(prop='C24', site='src/relation/distinct.rs',
   change='distinct rewritten through a helper differs_from_all whose recursion passes the list head instead of x: only adjacent elements are compared',
   needs='a list of length >= 3 with equal elements that are never adjacent: distinct([1, 2, 1]) succeeds; adjacent duplicates and lengths <= 2 behave as before'),
 # ---- third round (C01-C08: same prompt; C09-C24: the prompt carried the full property record incl. why_tests_cant and anchors) ----
 'c01-3': dict(prop='C01', site='src/state/substitution.rs SMap::occurs_check', change='loop along the list spine that compares the raw terminator without walking it (the same slip as c01)', needs='x == [.. | t] with t bound earlier to a term containing x'),
 'c02-3': dict(prop='C02', site='src/relation/diseq.rs DisequalityConstraint::run', change='pairs whose variables are all still unbound are carried over unchanged and never applied to the trial substitution', needs='a disequality with >= 2 pairs posted while unbound, then a unification aliasing a variable of one pair with the key variable of another: [a, b] != [1, 2], a == b leaves a bogus a != 1 or a != 2'),
 'c03-3': dict(prop='C03', site='src/state/constraint/store.rs only_reified_vars', change='list case && became ||: a list counts as reified as soon as one element (or its [] terminator) does', needs='a pending disequality whose value side is a list containing a fresh variable not reachable from the query variables: |h| q != [1, h]'),
 'c04-3': dict(prop='C04', site='src/relation/diseq.rs DisequalityConstraint::run', change='pairs re-unified against independent clones (the same slip as c04 / c02-2)', needs='linked pairs [a, a] != [b, 5] posted first, then a == 7, then b == 5 or 7'),
 'c05-3': dict(prop='C05', site='src/stream.rs Stream::mplus_dfs', change='right-leaning re-association with swapped operands (the same slip as c05-2)', needs='three stacked choice points'),
 'c06-3': dict(prop='C06', site='src/operator/conde.rs Conde::solve', change='live-arm filter with a stale index for the first arm (the same slip as c06-2)', needs='first arm statically Fail, another live arm, interleaving search'),
 'c07-3': dict(prop='C07', site='src/operator/conde.rs Conde::solve', change='statically failing branches are skipped with break instead of continue (the loop runs over the non-first branches in reverse)', needs='a conde / match with >= 3 branches, a static Fail at index >= 2 and a live branch between the first branch and it: conde { [always(), q == 1], q == 2, false } never yields 2'),
 'c08-3': dict(prop='C08', site='src/operator/conda.rs + condu.rs from_conjunctions', change='clauses whose rest is statically Fail are skipped (the slip of c08-2, in Condu too)', needs='conda / condu / matcha / matchu clause with a succeeding head, a literal false in the rest, a later clause with answers'),
 'c09-3': dict(prop='C09', site='src/relation/diseq.rs DisequalityConstraint::run', change='shortcut: the stored constraint is put back untouched when the pair count is unchanged and every left-hand variable still walks to a variable', needs='a disequality with >= 2 pairs ([x, y] != [a, b]) followed by x == y, all variables in the answer: reification keeps one pair or the other depending on hash order'),
 'c10-3': dict(prop='C10', site='src/state/mod.rs run_constraints + src/relation/clpfd/distinctfd.rs DistinctFd2Constraint::run', change='in-place update of the all-different constraint when its strong count is <= 2, justified by "my store is not shared"', needs='distinctfd over unbound variables before the conde, one branch that first posts a constraint (copying the store) and binds later, a sibling that binds a distinctfd variable in between'),
 'c11-3': dict(prop='C11', site='src/operator/closure.rs Closure::solve', change='closure body cached in a OnceCell (the same slip as c10)', needs='project inside a closure body reached by >= 2 states'),
 'c12-3': dict(prop='C12', site='src/operator/conj.rs InferredConj::from_iter', change='trivially true conjuncts skipped with continue, a failing conjunct ends the loop with break without making the conjunction fail', needs='a for body whose goal for some element is the static Fail at construction time (a literal false in the body): the failing element and all later ones are dropped'),
 'c13-3': dict(prop='C13', site='macros/src/lib.rs PatternMatchOperator::to_tokens', change='__term__ alias bound after the pattern variables (the same slip as c15)', needs='a pattern variable named like a variable of the matched term'),
 'c14-3': dict(prop='C14', site='macros/src/lib.rs impl ToTokens for InnerTreeTerm (ImproperList)', change='nested improper lists emitted as cons cells by a fold over heads.iter() instead of heads.iter().rev(): the heads come out reversed', needs='an improper list with >= 2 non-identical heads nested inside another list term (element or tail): [0, [1, 2 | 3]]; top-level improper lists and single-head [x | xs] are unaffected'),
 'c15-3': dict(prop='C15', site='macros/src/lib.rs PatternMatchOperator::to_tokens', change='__term__ alias bound after the pattern variables (the same slip as c15)', needs='an arm shadowing its scrutinee'),
 'c16-3': dict(prop='C16', site='src/state/mod.rs State::update_var_domain', change='the domain-store update is skipped when min() and max() of the intersection equal those of the stored domain', needs='a domain intersected with one of the same bounds but a smaller interior, from a source that is not a stored constraint: a second infd on the variable, or x == y with x in {1,3}, y in {1,2,3} (that orientation)'),
 'c17-3': dict(prop='C17', site='src/relation/clpfd/timesfd.rs quotient_bounds', change='a zero end point of the divisor range is moved to 1 / -1 (close to c17-2)', needs='product range containing 0, factor domain with 0 as an end point'),
 'c18-3': dict(prop='C18', site='src/state/fd.rs FiniteDomain::diff (Interval - Interval)', change='fast path returning an interval when the other operand covers one end, without checking that the intervals overlap', needs='two disjoint intervals with a gap of at least one integer: (5..=8).diff(1..=2) = 3..=8'),
 'c19-3': dict(prop='C19', site='src/relation/clpz/plusz.rs PlusZConstraint::run', change='the arm (ground, unbound, ground) binds the second operand with a bare substitution extension and does not re-run the other constraints', needs='a second pending constraint sharing that second-operand variable with another operand still unbound: plusz(b, 1, d), plusz(2, b, 5) leaves d unbound'),
 'c20-3': dict(prop='C20', site='src/state/unification.rs unify_rec_compound', change='zip over children (the same slip as c20)', needs='Option field: Some vs None'),
 'c21-3': dict(prop='C21', site='src/lterm.rs impl PartialEq for LTerm', change='iter().eq(iter()) (the same slip as c21)', needs='[1, 2] vs [1 | 2]'),
 'c22-3': dict(prop='C22', site='src/state/mod.rs State::with_cstore', change='the replacement store is built with normalize(), which discards the list of dropped constraints, after with_constraint was reported for each', needs='visible only in an answer state: two tree disequalities that stay distinct during the search but become identical once walk_star is applied at reification (x != [a], x != [b], a == b)'),
 'c23-3': dict(prop='C23', site='src/relation/clpz/timesz.rs exact_quotient', change='refactor that tests the product for zero first and then divides without checking the divisor', needs='timesz run with one factor ground 0, the product ground non-zero and the other factor unbound: timesz(0, q, 5) panics'),
 'c24-3': dict(prop='C24', site='src/relation/distinct.rs', change='recursion on rest instead of [second | rest] (the same slip as c24)', needs='[1, 2, 2]'),
}


def from_notes(sid):
    """Round 4 (focused prompts): change / needs are taken from the agent's notes."""
    path = os.path.join(ROOT, sid, 'agent_notes.md')
    text = open(path).read() if os.path.exists(path) else ''
    secs = re.split(r'\n(?=#+ )', text)
    def pick(pat):
        for sec in secs:
            head = sec.split('\n', 1)[0]
            if re.search(pat, head, re.I):
                body = sec.split('\n', 1)[1] if '\n' in sec else ''
                return re.sub(r'\s+', ' ', body).strip()[:900]
        return ''
    head_change = ''
    for sec in secs:
        h = sec.split('\n', 1)[0]
        if re.search(r'change|bug', h, re.I) and not re.search(r'manifest|trigger|needed', h, re.I):
            head_change = h.lstrip('# ').strip()
            break
    prop = 'C' + re.match(r'c(\d+)', sid).group(1)
    return dict(prop=prop, site=head_change or 'see agent_notes.md', change=pick(r'change|the bug|idea') or 'see agent_notes.md',
                needs=pick(r'manifest|trigger|needed|needs') or 'see agent_notes.md',
                origin_extra='eighth round: the prompt carried the full property record and a list of kinds of trigger to choose from (no focus file)' if sid[-1]=='k' else ({'p':'fifth','q':'fifth','r':'fifth','s':'fifth','u':'sixth','v':'sixth','w':'sixth','x':'seventh','y':'seventh','z':'seventh'}.get(sid[-1],'fourth')) + ' round: the prompt carried the full property record and a FOCUS file taken from the property\'s own anchors')


def main():
    conf = {}
    p = os.path.join(ROOT, 'confirmations.txt')
    if os.path.exists(p):
        for line in open(p):
            m = re.match(r'=== ([Cc]\d+(?:-\d+|[a-z])?)\s+(.*)', line.strip())
            if m:
                conf[m.group(1).lower()] = m.group(2)
    p = os.path.join(ROOT, 'reconfirmations-a0b4ed4.txt')
    if os.path.exists(p):
        for line in open(p):
            m = re.match(r'(c\d+(?:-\d+|[a-z])?) (RECONFIRMED .*)', line.strip())
            if m and m.group(1) not in conf:
                conf[m.group(1)] = m.group(2) + ' (a0b4ed4)'
    results = {}
    p = os.path.join(ROOT, 'results.txt')
    if os.path.exists(p):
        for line in open(p):
            m = re.match(r'(c\d+(?:-\d+|[a-z])?) vs (C\d+): exit=(\d+)\s*(?:\d+s)?\s*(.*)', line.strip())
            if m:
                results.setdefault(m.group(1), {})[m.group(2)] = dict(exit=int(m.group(3)), detected=int(m.group(3)) == 1, reported=m.group(4).strip())
    seeds = dict(SEEDS)
    for sid in ('c04', 'c02-2', 'c04-3', 'c02-3'):
        if sid in seeds:
            seeds[sid] = dict(seeds[sid], note='patch.diff is the change ported by hand onto the loop as rewritten by fix 95bccf1 (pairs re-unified in variable-id order); the agent\'s original is patch.orig.diff; re-confirmed after porting')
    for sid in sorted(os.listdir(ROOT)):
        if os.path.isdir(os.path.join(ROOT, sid)) and sid not in seeds and re.match(r'c\d+[a-z]$', sid):
            seeds[sid] = from_notes(sid)
    if 'c09q' in seeds:
        seeds['c09q'] = dict(seeds['c09q'], note='patch.diff is the change ported by hand onto the lines as rewritten by fix fab10e6 (hidden variables labelled in variable-id order); the agent\'s original is patch.orig.diff. With the fix the change is no longer order-dependent (C09 silent) but still loses answers whenever the first-labelled hidden variable has a locally consistent, globally wrong first value: reported by C17 (missing-solution). Re-confirmed with tools/reconfirm_seed.sh against fab10e6.')
    for sid, s in sorted(seeds.items()):
        d = os.path.join(ROOT, sid)
        if not os.path.isdir(d):
            print('missing', d); continue
        meta = {
            'property': s['prop'],
            'origin': 'written by a fresh sub-agent that was given only the text of the property and its own scratch worktree of /repo' + ('; ' + s['origin_extra'] if 'origin_extra' in s else ''),
            'changed': s['site'],
            'change': s['change'],
            'needs_to_manifest': s['needs'],
            'applies_to': s.get('base', 'HEAD of /repo at the time of confirmation (see confirmations.txt); still applies to the current HEAD'),
            'confirmed_by': 'tools/confirm_seed.sh in a fresh scratch worktree: `cargo run --example seeded_demo` without the patch, `cargo test --workspace --offline --no-fail-fast` with the patch, the demo again with the patch',
            'confirmation': conf.get(sid, ''),
            'checks_run': 'tools/run_seed.sh %s <checks> (git -C /repo apply patch.diff; ./check <ID> quick; git -C /repo checkout -- .)' % sid,
            'verdicts': results.get(sid, {}),
        }
        if 'note' in s:
            meta['note'] = s['note']
        json.dump(meta, open(os.path.join(d, 'meta.json'), 'w'), indent=1)
    print('wrote', len(seeds), 'meta.json files')


if __name__ == '__main__':
    main()
