#!/bin/sh
# tools/reconfirm_seed.sh <id> [slot] : re-confirm a stored seeded change against the CURRENT
# HEAD of /repo in a scratch worktree (nothing is copied or changed under /verif):
# demo without the patch (must pass), repository suite with the patch (must pass), demo with the
# patch (must fail). Prints one line: "<id> RECONFIRMED|NOAPPLY|OBSOLETE ...".
ID="$1"; SLOT="${2:-0}"
D=/verif/seeded/$ID
V=/tmp/wt/reconf-$ID
[ -f "$D/patch.diff" ] || { echo "$ID no patch"; exit 2; }
git -C /repo worktree remove --force "$V" 2>/dev/null; rm -rf "$V"
git -C /repo worktree add -q --detach "$V" HEAD || exit 2
cp /repo/Cargo.lock "$V/"; cp "$D/seeded_demo.rs" "$V/examples/seeded_demo.rs"
cd "$V" || exit 2
export CARGO_TARGET_DIR=/tmp/wt/reconf-target-$SLOT
timeout 900 cargo run --offline --example seeded_demo >/dev/null 2>&1; R0=$?
if ! git apply "$D/patch.diff" 2>/dev/null; then
  echo "$ID NOAPPLY (demo on HEAD: exit $R0)"
else
  timeout 1500 cargo test --workspace --offline --no-fail-fast >/tmp/wt/reconf-$ID-suite.log 2>&1; RS=$?
  timeout 900 cargo run --offline --example seeded_demo >/dev/null 2>&1; R1=$?
  if [ $R0 -eq 0 ] && [ $RS -eq 0 ] && [ $R1 -ne 0 ]; then V1=RECONFIRMED; else V1=OBSOLETE; fi
  echo "$ID $V1 demo without patch: exit $R0; suite with patch: exit $RS ($(grep '^test result' /tmp/wt/reconf-$ID-suite.log | head -1)); demo with patch: exit $R1"
fi
cd /verif
git -C /repo worktree remove --force "$V"; rm -rf "$V" /tmp/wt/reconf-$ID-suite.log
