#!/bin/sh
# surface/run.sh <ID> <tier> [--replay <file>] : E5 checks (C13, C14, C15).
#  1. `pvmc gen` writes the surface programs of the family as Rust source,
#  2. the pvmc-surface crate is built against /repo's current proc-macros,
#  3. its binary runs every program and compares with the reference interpreter.
HERE=$(cd "$(dirname "$0")/.." && pwd)
ID="$1"; TIER="$2"; shift 2
GEN="$HERE/harness/pvmc-surface/src/generated"
BIN="$CARGO_TARGET_DIR/debug"
"$BIN/pvmc" gen "$ID" "$TIER" "$GEN" >/dev/null || exit 2
LOG="$CARGO_TARGET_DIR/surface-build-$$.log"
cd "$HERE/harness" || exit 2
if ! cargo build --offline -p pvmc-surface >"$LOG" 2>&1; then
  # A compile error located inside a generated program means the macros rejected (or
  # mistranslated into ill-typed Rust) a well-formed surface program: that is a violation.
  # Anything else is a machinery failure.
  python3 "$HERE/surface/attribute.py" "$ID" "$TIER" "$LOG" "$GEN" "$HERE"
  RC=$?
  rm -f "$LOG"
  exit $RC
fi
rm -f "$LOG"
REPLAY=""
if [ "$1" = "--replay" ] && [ -n "$2" ]; then
  REPLAY=$(python3 -c "import json,sys; v=json.load(open(sys.argv[1])); print(json.dumps({'family': v.get('family',''), 'index': v.get('index',0)}))" "$2") || exit 2
  export PVMC_REPLAY_JSON="$REPLAY"
fi
PROG="$HERE/.progress-$ID-$$"
rm -rf "$PROG"; mkdir -p "$PROG"
STALL=${PVMC_STALL_S:-120}
PVMC_PROGRESS="$PROG" python3 "$HERE/surface/watch.py" "$PROG" "$STALL" "$BIN/pvmc-surface" "$ID" "$TIER"
RC=$?
if [ $RC -gt 2 ]; then
  # the runner died (stack overflow / abort inside the library): attribute it to the case in flight
  CASE=$(head -n 1 "$PROG"/slot-* 2>/dev/null | head -n 1)
  WHY="the compiled surface program aborted the process (stack overflow or fatal runtime error)"
  [ -f "$PROG/hang" ] && WHY="the compiled surface program did not return within $STALL s (one engine step or one goal never ends)"
  mkdir -p "$HERE/replays"
  R="$HERE/replays/$ID-crash-$$.json"
  python3 - "$ID" "$TIER" "$CASE" "$R" "$HERE" "$WHY" <<'PY'
import json, sys, os
pid, tier, case, path, verif, why = sys.argv[1:7]
parts = case.split('\t')
fam, idx = (parts[0], int(parts[1])) if len(parts) >= 2 and parts[1].isdigit() else (pid.lower() + '-surface', -1)
json.dump({"property": pid, "tier": tier, "family": fam, "index": idx, "kind": "crash", "detail": why}, open(path, 'w'), indent=1)
ev = {"property_id": pid, "tier": tier, "seed": 0, "level": "model_checking",
      "coverage": {"evaluations": max(idx, 1), "distinct_nontrivial": 1, "exhaustive": False, "samples": [{"family": fam, "index": idx}],
                   "explanation": "the runner aborted while executing the sampled case"}, "wall_s": 0.0, "violations": 1}
json.dump(ev, open(os.path.join(verif, 'evidence', pid + '.json'), 'w'), indent=1)
PY
  echo "VIOLATION property=$ID replay=$R"
  echo "  kind=crash case in flight: $CASE ($WHY)"
  RC=1
fi
rm -rf "$PROG"
exit $RC
