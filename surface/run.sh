#!/bin/sh
# surface/run.sh <ID> <tier> [--replay <file>] : E5 checks (C13, C14, C15).
#  1. `pvmc gen` writes the surface programs of the family as Rust source,
#  2. the pvmc-surface crate is built against /repo's current proc-macros,
#  3. its binary runs every program and compares with the reference interpreter.
HERE=$(cd "$(dirname "$0")/.." && pwd)
ID="$1"; TIER="$2"; shift 2
GEN="$HERE/harness/pvmc-surface/src/generated"
BIN="$CARGO_TARGET_DIR/debug"
"$BIN/pvmc" gen "$ID" "$TIER" "$GEN" >/dev/null || exit 2
LOG="$CARGO_TARGET_DIR/surface-build-$$.log"
cd "$HERE/harness" || exit 2
if ! cargo build --offline -p pvmc-surface >"$LOG" 2>&1; then
  # A compile error located inside a generated program means the macros rejected (or
  # mistranslated into ill-typed Rust) a well-formed surface program: that is a violation.
  # Anything else is a machinery failure.
  python3 "$HERE/surface/attribute.py" "$ID" "$TIER" "$LOG" "$GEN" "$HERE"
  RC=$?
  rm -f "$LOG"
  exit $RC
fi
rm -f "$LOG"
REPLAY=""
if [ "$1" = "--replay" ] && [ -n "$2" ]; then
  REPLAY=$(python3 -c "import json,sys; v=json.load(open(sys.argv[1])); print(json.dumps({'family': v.get('family',''), 'index': v.get('index',0)}))" "$2") || exit 2
  export PVMC_REPLAY_JSON="$REPLAY"
fi
exec "$BIN/pvmc-surface" "$ID" "$TIER"
