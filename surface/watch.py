#!/usr/bin/env python3
"""watch.py <progress-dir> <stall-seconds> <cmd...>: runs cmd; if the case named in a progress slot has
been in flight for longer than the stall limit (cases take milliseconds), the run is a hang of
the library: the process is killed and 137 is returned so that run.sh attributes it."""
import os, subprocess, sys, time
prog, stall = sys.argv[1], float(sys.argv[2])
p = subprocess.Popen(sys.argv[3:])
while True:
    try:
        rc = p.wait(timeout=2)
        sys.exit(rc if rc >= 0 else 128 - rc)
    except subprocess.TimeoutExpired:
        pass
    now = time.time()
    for f in os.listdir(prog):
        path = os.path.join(prog, f)
        try:
            line = open(path).readline()
            if line.count('\t') >= 2 and now - os.path.getmtime(path) > stall:
                p.kill(); p.wait()
                open(os.path.join(prog, 'hang'), 'w').write(line)
                sys.exit(137)
        except OSError:
            pass
