#!/usr/bin/env python3
"""Attributes rustc errors of the generated surface programs to cases.
usage: attribute.py <ID> <tier> <build log> <generated dir> <verif dir>
exit 1 + VIOLATION lines if every error is inside a generated case, else exit 2."""
import json, os, re, sys
pid, tier, log, gen, verif = sys.argv[1:6]
index = {}
for line in open(os.path.join(gen, 'index.tsv')):
    m, lo, hi, case = line.split('\t')
    index.setdefault(int(m), []).append((int(lo), int(hi), int(case)))
text = open(log).read()
errors = re.findall(r'^(error(?:\[E\d+\])?: .*)\n\s+--> ([^\n:]+):(\d+):(\d+)', text, re.M)
if not errors:
    sys.stderr.write("machinery error: harness build failed\n" + text[-3000:] + "\n")
    sys.exit(2)
cases = {}
foreign = []
for msg, path, line, col in errors:
    m = re.search(r'generated/gen_(\d+)\.rs$', path)
    if not m:
        foreign.append((msg, path, line))
        continue
    mod, line = int(m.group(1)), int(line)
    hit = [c for lo, hi, c in index.get(mod, []) if lo <= line <= hi]
    if hit:
        cases.setdefault(hit[0], []).append(msg)
    else:
        foreign.append((msg, path, line))
if foreign or not cases:
    sys.stderr.write("machinery error: build errors outside the generated programs:\n")
    for f in foreign[:10]:
        sys.stderr.write("  %s (%s:%s)\n" % f)
    sys.exit(2)
os.makedirs(os.path.join(verif, 'replays'), exist_ok=True)
sources = {}
for mod in index:
    lines = open(os.path.join(gen, 'gen_%d.rs' % mod)).read().split('\n')
    for lo, hi, c in index[mod]:
        sources[c] = '\n'.join(lines[lo - 1:hi])
for c, msgs in sorted(cases.items())[:20]:
    path = os.path.join(verif, 'replays', '%s-compile-%d.json' % (pid, c))
    json.dump({"property": pid, "tier": tier, "family": pid.lower() + "-surface", "index": c, "kind": "rejected-by-macros",
               "input": sources.get(c, ''), "detail": msgs[0]}, open(path, 'w'), indent=1)
    print("VIOLATION property=%s replay=%s" % (pid, path))
    print("  kind=rejected-by-macros index=%d" % c)
    print("  " + msgs[0])
ev = {"property_id": pid, "tier": tier, "seed": 0, "level": "model_checking",
      "coverage": {"evaluations": len(sources), "distinct_nontrivial": len(cases), "exhaustive": False,
                   "samples": [{"index": c, "error": m[0]} for c, m in list(cases.items())[:5]],
                   "explanation": "the generated surface programs did not compile with the current macros; nothing was executed"},
      "wall_s": 0.0, "violations": len(cases)}
os.makedirs(os.path.join(verif, 'evidence'), exist_ok=True)
json.dump(ev, open(os.path.join(verif, 'evidence', pid + '.json'), 'w'), indent=1)
print("%s %s: %d program(s) rejected at compile time" % (pid, tier, len(cases)))
sys.exit(1)
