//! E2: deviation-bounded exploration of hash-iteration-order schedules (hooks H3-H5).
use proto_vulcan::verif;
use std::cell::RefCell;
use std::rc::Rc;

#[derive(Clone, Debug, PartialEq, Eq)]
pub struct Point {
    pub site: &'static str,
    pub arity: usize,
    pub pick: usize,
}

#[derive(Default)]
struct Rec {
    prefix: Vec<usize>,
    reverse: bool,
    trace: Vec<Point>,
    mismatch: Option<String>,
}

pub const ALL_SITES: [&str; 8] = [
    "run_constraints",
    "process_extension_fd",
    "with_cstore",
    "normalize",
    "diseq_run",
    "diseq_subsumes",
    "diseq_walk_star",
    "enforce_constraints_fd",
];

/// Runs `f` under a schedule: picks follow `prefix`, then 0 (canonical). Returns the result
/// and the trace of choice points at the enabled sites.
pub fn run_with<O>(sites: &[&'static str], prefix: &[usize], reverse: bool, f: impl FnOnce() -> O) -> (O, Vec<Point>, Option<String>) {
    let rec = Rc::new(RefCell::new(Rec {
        prefix: prefix.to_vec(),
        reverse,
        trace: vec![],
        mismatch: None,
    }));
    let rec2 = Rc::clone(&rec);
    let sites: Vec<&'static str> = sites.to_vec();
    verif::install_chooser(Box::new(move |site, arity| {
        if !sites.contains(&site) {
            return 0;
        }
        let mut r = rec2.borrow_mut();
        let pos = r.trace.len();
        let pick = if r.reverse {
            arity - 1
        } else if pos < r.prefix.len() {
            let p = r.prefix[pos];
            if p >= arity {
                r.mismatch = Some(format!("prefix pick {} out of range {} at point {} ({})", p, arity, pos, site));
                0
            } else {
                p
            }
        } else {
            0
        };
        r.trace.push(Point { site, arity, pick });
        pick
    }));
    let out = f();
    verif::remove_chooser();
    let r = rec.borrow();
    (out, r.trace.clone(), r.mismatch.clone())
}

pub struct Exploration<O> {
    pub schedules: u64,
    pub max_points: usize,
    /// distinct outcomes with the first (fewest-deviation-first order) schedule producing each
    pub outcomes: Vec<(Vec<usize>, O)>,
    pub cap_hit: bool,
    pub error: Option<String>,
}

/// Explores every schedule with at most `d` non-canonical picks, plus the all-reversed one.
pub fn explore<O: PartialEq + Clone>(
    sites: &[&'static str],
    d: usize,
    cap: u64,
    f: &dyn Fn() -> O,
) -> Exploration<O> {
    let mut ex = Exploration {
        schedules: 0,
        max_points: 0,
        outcomes: vec![],
        cap_hit: false,
        error: None,
    };
    fn go<O: PartialEq + Clone>(
        ex: &mut Exploration<O>,
        sites: &[&'static str],
        d: usize,
        cap: u64,
        f: &dyn Fn() -> O,
        prefix: Vec<usize>,
        parent: &[Point],
    ) {
        if ex.error.is_some() {
            return;
        }
        if ex.schedules >= cap {
            ex.cap_hit = true;
            return;
        }
        let (o, trace, mismatch) = run_with(sites, &prefix, false, f);
        ex.schedules += 1;
        ex.max_points = ex.max_points.max(trace.len());
        if let Some(m) = mismatch {
            ex.error = Some(m);
            return;
        }
        // the replayed prefix must hit the same choice points as in the parent run
        for i in 0..prefix.len().saturating_sub(1) {
            if i >= trace.len() || i >= parent.len() || trace[i].site != parent[i].site || trace[i].arity != parent[i].arity {
                ex.error = Some(format!("nondeterministic replay at point {} of prefix {:?}", i, prefix));
                return;
            }
        }
        if !ex.outcomes.iter().any(|(_, x)| *x == o) {
            ex.outcomes.push((prefix.clone(), o));
        }
        for i in prefix.len()..trace.len() {
            let used = trace[..i].iter().filter(|p| p.pick != 0).count();
            if used + 1 > d {
                continue;
            }
            for alt in 1..trace[i].arity {
                let mut p: Vec<usize> = trace[..i].iter().map(|x| x.pick).collect();
                p.push(alt);
                go(ex, sites, d, cap, f, p, &trace);
            }
        }
    }
    go(&mut ex, sites, d, cap, f, vec![], &[]);
    if ex.error.is_none() {
        let (o, trace, _) = run_with(sites, &[], true, f);
        ex.schedules += 1;
        ex.max_points = ex.max_points.max(trace.len());
        if !ex.outcomes.iter().any(|(_, x)| *x == o) {
            ex.outcomes.push((vec![usize::MAX], o));
        }
    }
    ex
}

/// Sanity check used at start-up: the same schedule run twice gives identical traces/outcomes.
pub fn replay_is_deterministic<O: PartialEq + Clone>(sites: &[&'static str], prefix: &[usize], f: &dyn Fn() -> O) -> bool {
    let (a, ta, _) = run_with(sites, prefix, false, f);
    let (b, tb, _) = run_with(sites, prefix, false, f);
    a == b && ta == tb
}
