//! C23: solving well-formed programs never panics.
//! Monitor over every family of this framework: each family's cases already run under
//! catch_unwind; this check re-runs all of them (quick or thorough bounds) and reports every
//! panic (other than the harness's own step-budget signal) as a C23 violation.
use crate::ev::{Ctx, Violation};
use serde_json::json;

const FAMILIES: [&str; 20] = [
    "C01", "C02", "C03", "C04", "C05", "C06", "C07", "C08", "C09", "C10", "C11", "C12", "C16", "C17", "C19", "C20", "C21", "C22", "C24", "C18",
];

pub fn run(ctx: &mut Ctx) {
    ctx.set("rule", json!("Monitor: every generator of this framework (tree/unification, disequality, reification, reordering, engine with scripted leaves, committed choice, lazy/deterministic iteration, branch isolation, project, for, FD tiers, CLP(Z), compound twins, LTerm API, user hooks, list relations, FiniteDomain) is re-run with its well-formedness filter; every case runs under catch_unwind with a recording panic hook; any panic other than the harness's BudgetExceeded signal is a violation. distinct_nontrivial = families that executed cases."));
    let mut per_family = serde_json::Map::new();
    let mut total = 0u64;
    let mut sites: std::collections::BTreeMap<String, u64> = std::collections::BTreeMap::new();
    let mut fams = 0u64;
    for id in FAMILIES {
        let mut sub = Ctx::new(id, &ctx.tier);
        if let Some(r) = &ctx.replay {
            match r.data.get("origin").and_then(|o| o.as_str()) {
                // a recorded violation: only the family it came from, with its own case data
                Some(origin) => {
                    if origin != id {
                        continue;
                    }
                    let mut r2 = r.clone();
                    r2.data = r.data.get("data").cloned().unwrap_or(serde_json::Value::Null);
                    sub.replay = Some(r2);
                }
                // crash triage: the in-flight case is identified by its family name only
                None => sub.replay = Some(r.clone()),
            }
        }
        crate::dispatch(id, &mut sub);
        let evals = sub.coverage.get("evaluations").and_then(|v| v.as_u64()).unwrap_or(0);
        total += evals;
        if evals > 0 {
            fams += 1;
        }
        let mut panics = 0u64;
        for v in sub.violations {
            if v.kind.contains("panic") || v.kind.contains("crash") {
                panics += 1;
                *sites.entry(v.site.clone()).or_insert(0) += 1;
                ctx.violation(Violation {
                    kind: v.kind.clone(),
                    sig: v.sig.clone(),
                    site: v.site.clone(),
                    detail: format!("[{} family {}] {}", id, v.family, v.detail),
                    family: v.family.clone(),
                    index: v.index,
                    schedule: v.schedule.clone(),
                    data: json!({"origin": id, "data": v.data}),
                });
            }
        }
        per_family.insert(id.to_string(), json!({"cases": evals, "panics": panics}));
        if ctx.samples.len() < 8 {
            if let Some(s) = sub.samples.first() {
                ctx.sample(json!({"family_of": id, "case": s}));
            }
        }
    }
    ctx.set("per_family", serde_json::Value::Object(per_family));
    ctx.set("panic_sites", json!(sites));
    ctx.set("evaluations", json!(total));
    ctx.set("states", json!(total));
    ctx.set("transitions", json!(total));
    ctx.set("traces_validated_against_impl", json!(total));
    ctx.set("distinct_nontrivial", json!(fams));
    ctx.hist("families", fams);
    ctx.assume("well-formedness per family as stated in DESIGN.md: operands of the documented kinds, every FD operand given a domain, integers far inside isize; the compiled surface-syntax families report their panics under C13-C15");
}
