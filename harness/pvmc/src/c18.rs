//! C18: FiniteDomain operations implement set semantics.
//! E1: explicit-state BFS over domain *representations*; lock-step model BTreeSet<i64>.
use crate::ev::{Ctx, Violation};
use crate::run::{guarded, panic_site, End};
use proto_vulcan::state::FiniteDomain;
use serde_json::json;
use std::collections::{BTreeSet, HashMap, VecDeque};

#[derive(Clone, PartialEq, Eq, Hash, Debug)]
pub enum Repr {
    Interval(i64, i64),
    Sparse(Vec<i64>),
}

impl Repr {
    fn of(d: &FiniteDomain) -> Repr {
        match d {
            FiniteDomain::Interval(r) => Repr::Interval(*r.start() as i64, *r.end() as i64),
            FiniteDomain::Sparse(v) => Repr::Sparse(v.iter().map(|x| *x as i64).collect()),
        }
    }
    fn build(&self) -> FiniteDomain {
        match self {
            Repr::Interval(a, b) => FiniteDomain::Interval((*a as isize)..=(*b as isize)),
            Repr::Sparse(v) => FiniteDomain::Sparse(v.iter().map(|x| *x as isize).collect()),
        }
    }
    fn model(&self) -> BTreeSet<i64> {
        match self {
            Repr::Interval(a, b) => (*a..=*b).collect(),
            Repr::Sparse(v) => v.iter().copied().collect(),
        }
    }
    fn text(&self) -> String {
        match self {
            Repr::Interval(a, b) => format!("Interval({}..={})", a, b),
            Repr::Sparse(v) => format!("Sparse({:?})", v),
        }
    }
}

fn viol(ctx: &mut Ctx, kind: &str, sig: String, detail: String, index: usize, site: String) {
    ctx.violation(Violation {
        kind: kind.into(),
        sig,
        site,
        detail,
        family: "fd-e1".into(),
        index,
        schedule: vec![],
        data: serde_json::Value::Null,
    });
}

fn check_result(
    ctx: &mut Ctx,
    op: &str,
    sig: String,
    res: Result<Option<FiniteDomain>, End>,
    expected: &BTreeSet<i64>,
    index: usize,
) -> Option<Repr> {
    match res {
        Err(End::Panic(m)) => {
            let site = panic_site(&m);
            viol(ctx, &format!("{}-panic", op), sig, format!("panicked: {}", m), index, site);
            None
        }
        Err(_) => None,
        Ok(None) => {
            if !expected.is_empty() {
                viol(ctx, &format!("{}-none", op), sig, format!("returned None, model result is {:?}", expected), index, String::new());
            } else {
                ctx.hist("result-none", 1);
            }
            None
        }
        Ok(Some(d)) => {
            let r = Repr::of(&d);
            let m = r.model();
            if m != *expected {
                viol(ctx, &format!("{}-wrong", op), sig, format!("returned {} = {:?}, model result is {:?}", r.text(), m, expected), index, String::new());
                None
            } else if m.is_empty() {
                viol(ctx, &format!("{}-empty-some", op), sig, format!("returned {} (empty) instead of None", r.text()), index, String::new());
                None
            } else {
                ctx.hist("result-some", 1);
                Some(r)
            }
        }
    }
}

fn observers(ctx: &mut Ctx, r: &Repr, window: &[i64], index: usize) {
    let d = r.build();
    let m = r.model();
    let sig = r.text();
    let obs = guarded(|| {
        let mut problems: Vec<(String, String)> = vec![];
        for w in window {
            if d.contains(*w as isize) != m.contains(w) {
                problems.push(("contains".into(), format!("contains({}) = {}", w, d.contains(*w as isize))));
            }
        }
        if d.min() as i64 != *m.iter().next().unwrap() {
            problems.push(("min".into(), format!("min = {}", d.min())));
        }
        if d.max() as i64 != *m.iter().next_back().unwrap() {
            problems.push(("max".into(), format!("max = {}", d.max())));
        }
        problems
    });
    match obs {
        Ok(ps) => {
            for (k, p) in ps {
                viol(ctx, &format!("observer-{}", k), sig.clone(), format!("{} but the set is {:?}", p, m), index, String::new());
            }
        }
        Err(End::Panic(msg)) => {
            let site = panic_site(&msg);
            viol(ctx, "observer-panic", sig.clone(), msg, index, site);
        }
        Err(_) => {}
    }
    // is_singleton / singleton_value (may overflow on wide intervals: separate guard)
    match guarded(|| (d.is_singleton(), d.singleton_value())) {
        Ok((is, val)) => {
            let exp = m.len() == 1;
            if is != exp {
                viol(ctx, "observer-is_singleton", sig.clone(), format!("is_singleton = {} but the set is {:?}", is, m), index, String::new());
            }
            let expv = if exp { m.iter().next().copied() } else { None };
            if val.map(|v| v as i64) != expv {
                viol(ctx, "observer-singleton_value", sig.clone(), format!("singleton_value = {:?} but the set is {:?}", val, m), index, String::new());
            }
        }
        Err(End::Panic(msg)) => {
            let site = panic_site(&msg);
            viol(ctx, "observer-singleton-panic", sig.clone(), msg, index, site);
        }
        Err(_) => {}
    }
    // iteration in both directions and into_iter
    match guarded(|| {
        let f: Vec<i64> = d.iter().map(|x| x as i64).collect();
        let b: Vec<i64> = d.iter().rev().map(|x| x as i64).collect();
        let i: Vec<i64> = d.clone().into_iter().map(|x| x as i64).collect();
        let ib: Vec<i64> = d.clone().into_iter().rev().map(|x| x as i64).collect();
        (f, b, i, ib)
    }) {
        Ok((f, b, i, ib)) => {
            let exp: Vec<i64> = m.iter().copied().collect();
            let mut rexp = exp.clone();
            rexp.reverse();
            if f != exp {
                viol(ctx, "observer-iter", sig.clone(), format!("iter() yields {:?}, the set is {:?}", f, exp), index, String::new());
            }
            if b != rexp {
                viol(ctx, "observer-iter-rev", sig.clone(), format!("iter().rev() yields {:?}, expected {:?}", b, rexp), index, String::new());
            }
            if i != exp {
                viol(ctx, "observer-into_iter", sig.clone(), format!("into_iter() yields {:?}, the set is {:?}", i, exp), index, String::new());
            }
            if ib != rexp {
                viol(ctx, "observer-into_iter-rev", sig.clone(), format!("into_iter().rev() yields {:?}, expected {:?}", ib, rexp), index, String::new());
            }
        }
        Err(End::Panic(msg)) => {
            let site = panic_site(&msg);
            viol(ctx, "observer-iter-panic", sig.clone(), msg, index, site);
        }
        Err(_) => {}
    }
}

fn explore_window(ctx: &mut Ctx, base: i64, width: i64, vec_len: usize, label: &str) {
    let window: Vec<i64> = (base..=base + (width - 1)).collect();
    let lo = window[0];
    let hi = *window.last().unwrap();
    let mut probe: Vec<i64> = window.clone();
    if lo > i64::MIN {
        probe.insert(0, lo - 1);
    }
    if hi < i64::MAX {
        probe.push(hi + 1);
    }
    // initial states: every interval, every From<Vec> input up to vec_len (unsorted, duplicated)
    let mut states: Vec<Repr> = vec![];
    let mut index: HashMap<Repr, usize> = HashMap::new();
    let mut queue: VecDeque<usize> = VecDeque::new();
    let mut add = |r: Repr, states: &mut Vec<Repr>, queue: &mut VecDeque<usize>| -> bool {
        if index.contains_key(&r) {
            return false;
        }
        index.insert(r.clone(), states.len());
        queue.push_back(states.len());
        states.push(r);
        true
    };
    for a in &window {
        for b in &window {
            if a <= b {
                add(Repr::Interval(*a, *b), &mut states, &mut queue);
            }
        }
    }
    // From<Vec>: all vectors of length 1..=vec_len over the window
    let mut from_vec_inputs = 0u64;
    for len in 1..=vec_len {
        let mut idx = vec![0usize; len];
        loop {
            let v: Vec<i64> = idx.iter().map(|i| window[*i]).collect();
            from_vec_inputs += 1;
            let sig = format!("FiniteDomain::from(vec!{:?})", v);
            let exp: BTreeSet<i64> = v.iter().copied().collect();
            let vv: Vec<isize> = v.iter().map(|x| *x as isize).collect();
            let res = guarded(|| Some(FiniteDomain::from(vv)));
            ctx.add("transitions", 1);
            if let Some(r) = check_result(ctx, "from_vec", sig, res, &exp, states.len()) {
                add(r, &mut states, &mut queue);
            }
            let mut i = 0;
            loop {
                if i == len {
                    break;
                }
                idx[i] += 1;
                if idx[i] < window.len() {
                    break;
                }
                idx[i] = 0;
                i += 1;
            }
            if i == len {
                break;
            }
        }
    }
    // every sorted duplicate-free sparse representation is also an initial state (the documented form)
    for mask in 1u32..(1 << window.len()) {
        let v: Vec<i64> = window
            .iter()
            .enumerate()
            .filter(|(i, _)| mask & (1 << i) != 0)
            .map(|(_, w)| *w)
            .collect();
        add(Repr::Sparse(v), &mut states, &mut queue);
    }
    ctx.hist(&format!("{}:from_vec_inputs", label), from_vec_inputs);

    // BFS: unary actions (copy_before / drop_before with every predicate = subset of the window)
    // applied to each new state; binary actions against every state known so far.
    let mut processed = 0usize;
    let mut max_depth = 0usize;
    let mut depth: HashMap<usize, usize> = HashMap::new();
    while let Some(si) = queue.pop_front() {
        let s = states[si].clone();
        let sd = s.build();
        let sm = s.model();
        let d0 = *depth.get(&si).unwrap_or(&0);
        max_depth = max_depth.max(d0);
        observers(ctx, &s, &probe, si);
        processed += 1;
        // unary
        for mask in 0u32..(1 << window.len()) {
            let pred_set: BTreeSet<i64> = window
                .iter()
                .enumerate()
                .filter(|(i, _)| mask & (1 << i) != 0)
                .map(|(_, w)| *w)
                .collect();
            let first = sm.iter().find(|x| pred_set.contains(x)).copied();
            let exp_copy: BTreeSet<i64> = match first {
                Some(f) => sm.iter().copied().filter(|x| *x < f).collect(),
                None => sm.clone(),
            };
            let exp_drop: BTreeSet<i64> = match first {
                Some(f) => sm.iter().copied().filter(|x| *x >= f).collect(),
                None => BTreeSet::new(),
            };
            let ps = pred_set.clone();
            let res = guarded(|| sd.copy_before(|x| ps.contains(&(*x as i64))));
            ctx.add("transitions", 1);
            let sig = format!("{}.copy_before(|x| {:?}.contains(x))", s.text(), pred_set);
            if let Some(r) = check_result(ctx, "copy_before", sig, res, &exp_copy, si) {
                if add(r.clone(), &mut states, &mut queue) {
                    depth.insert(states.len() - 1, d0 + 1);
                }
            }
            let ps = pred_set.clone();
            let res = guarded(|| sd.drop_before(|x| ps.contains(&(*x as i64))));
            ctx.add("transitions", 1);
            let sig = format!("{}.drop_before(|x| {:?}.contains(x))", s.text(), pred_set);
            if let Some(r) = check_result(ctx, "drop_before", sig, res, &exp_drop, si) {
                if add(r.clone(), &mut states, &mut queue) {
                    depth.insert(states.len() - 1, d0 + 1);
                }
            }
        }
        // binary against all states known so far (both orders); later states pair with this one
        // when they are processed, so every ordered pair of reached states is covered.
        let known: Vec<Repr> = states[..=si].to_vec();
        for (oi, o) in known.iter().enumerate() {
            let pairs: Vec<(&Repr, &Repr)> = if oi == si { vec![(&s, o)] } else { vec![(&s, o), (o, &s)] };
            for (a, b) in pairs {
                let ad = a.build();
                let bd = b.build();
                let am = a.model();
                let bm = b.model();
                let exp_i: BTreeSet<i64> = am.intersection(&bm).copied().collect();
                let exp_d: BTreeSet<i64> = am.difference(&bm).copied().collect();
                let res = guarded(|| ad.intersect(&bd));
                ctx.add("transitions", 1);
                let sig = format!("{}.intersect({})", a.text(), b.text());
                if let Some(r) = check_result(ctx, "intersect", sig, res, &exp_i, si) {
                    if add(r.clone(), &mut states, &mut queue) {
                        depth.insert(states.len() - 1, d0 + 1);
                    }
                }
                let res = guarded(|| ad.diff(&bd));
                ctx.add("transitions", 1);
                let sig = format!("{}.diff({})", a.text(), b.text());
                if let Some(r) = check_result(ctx, "diff", sig, res, &exp_d, si) {
                    if add(r.clone(), &mut states, &mut queue) {
                        depth.insert(states.len() - 1, d0 + 1);
                    }
                }
                // observers on pairs
                match guarded(|| (ad.is_disjoint(&bd), ad == bd)) {
                    Ok((dj, eq)) => {
                        ctx.add("transitions", 2);
                        if dj != exp_i.is_empty() {
                            viol(ctx, "is_disjoint-wrong", format!("{}.is_disjoint({})", a.text(), b.text()), format!("returned {}, intersection is {:?}", dj, exp_i), si, String::new());
                        }
                        if eq != (am == bm) {
                            viol(ctx, "eq-wrong", format!("{} == {}", a.text(), b.text()), format!("returned {}, sets are {:?} and {:?}", eq, am, bm), si, String::new());
                        } else if eq {
                            ctx.hist("eq-true", 1);
                        } else {
                            ctx.hist("eq-false", 1);
                        }
                    }
                    Err(End::Panic(m)) => {
                        let site = panic_site(&m);
                        viol(ctx, "pair-observer-panic", format!("{} vs {}", a.text(), b.text()), m, si, site);
                    }
                    Err(_) => {}
                }
            }
        }
    }
    ctx.add("states", states.len() as u64);
    let prev = ctx.coverage.get("max_depth").and_then(|v| v.as_u64()).unwrap_or(0);
    ctx.set("max_depth", json!(prev.max(max_depth as u64)));
    ctx.hist(&format!("{}:states", label), states.len() as u64);
    let with_dups = states
        .iter()
        .filter(|r| matches!(r, Repr::Sparse(v) if v.windows(2).any(|w| w[0] >= w[1])))
        .count();
    ctx.hist(&format!("{}:states-with-unsorted-or-duplicate-vector", label), with_dups as u64);
    if label == "small" {
        for r in states.iter().take(3).chain(states.iter().rev().take(3)) {
            ctx.sample(json!({"state": r.text(), "denotes": r.model().iter().collect::<Vec<_>>() }));
        }
    }
}

fn full_width(ctx: &mut Ctx) {
    // Only the O(1) operations are exercised on the full-width interval (the others iterate).
    let full = Repr::Interval(i64::MIN, i64::MAX);
    let d = full.build();
    let sig = full.text();
    ctx.add("states", 1);
    match guarded(|| (d.is_singleton(), d.singleton_value(), d.min(), d.max(), d.contains(0), d.contains(isize::MIN), d.contains(isize::MAX))) {
        Ok((is, sv, mn, mx, c0, cmin, cmax)) => {
            ctx.add("transitions", 7);
            if is || sv.is_some() || mn != isize::MIN || mx != isize::MAX || !c0 || !cmin || !cmax {
                viol(ctx, "full-interval-observer", sig.clone(), format!("is_singleton={} singleton_value={:?} min={} max={} contains: {} {} {}", is, sv, mn, mx, c0, cmin, cmax), 0, String::new());
            }
        }
        Err(End::Panic(m)) => {
            let site = panic_site(&m);
            viol(ctx, "full-interval-panic", sig.clone(), m, 0, site);
        }
        Err(_) => {}
    }
    for other in [Repr::Interval(-2, 3), Repr::Interval(i64::MAX - 1, i64::MAX), Repr::Sparse(vec![-5, 0, 7]), Repr::Interval(i64::MIN, i64::MIN)] {
        let od = other.build();
        for (a, b, at, bt) in [(&d, &od, &full, &other), (&od, &d, &other, &full)] {
            let res = guarded(|| a.intersect(b));
            ctx.add("transitions", 1);
            let exp = other.model();
            check_result(ctx, "intersect", format!("{}.intersect({})", at.text(), bt.text()), res, &exp, 0);
        }
    }
}

pub fn run(ctx: &mut Ctx) {
    ctx.set("rule", json!("E1: BFS over FiniteDomain representations (variant + exact contents) from all intervals, all From<Vec> inputs and all sorted sparse sets of a 9-value (thorough: 11-value) window, From<Vec> inputs of length <= 4 (thorough: 5); actions intersect/diff/is_disjoint/== with every reached state (both orders), copy_before/drop_before with every predicate (all subsets of the window); lock-step BTreeSet model; every observer compared on every state. distinct_nontrivial = distinct representations reached."));
    let (vec_len, width) = if ctx.quick() { (4usize, 9i64) } else { (5usize, 11i64) };
    crate::pool::on_big_stack(|| {
        explore_window(ctx, -3, width, vec_len, "small");
        // windows hugging the extreme isize bounds
        explore_window(ctx, i64::MIN, 4, 2, "at-isize-min");
        explore_window(ctx, i64::MAX - 3, 4, 2, "at-isize-max");
        full_width(ctx);
    });
    let st = ctx.coverage.get("states").and_then(|v| v.as_u64()).unwrap_or(0);
    let tr = ctx.coverage.get("transitions").and_then(|v| v.as_u64()).unwrap_or(0);
    ctx.set("traces_validated_against_impl", json!(tr));
    ctx.set("evaluations", json!(tr));
    ctx.set("distinct_nontrivial", json!(st));
    ctx.set("window", json!(format!("[-3, {}], [isize::MIN, +3], [isize::MAX-3, isize::MAX], full width (O(1) operations only)", -3 + width - 1)));
    ctx.require_nonzero("result-none");
    ctx.require_nonzero("result-some");
    ctx.require_nonzero("eq-true");
    ctx.require_nonzero("eq-false");
    ctx.assume("the model is BTreeSet<i64>; isize is 64 bits on this target");
    ctx.assume("the full-width interval is only exercised through O(1) operations; diff/is_disjoint/iteration on it would not terminate in practice");
}
