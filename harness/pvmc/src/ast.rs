//! Plain-data AST of terms and goals (Send + Hash), independent of the library's types.
use std::fmt;

/// Compound constructor tags. Each corresponds to a Rust type built in `conv`.
#[derive(Clone, Copy, PartialEq, Eq, Hash, PartialOrd, Ord, Debug)]
pub enum Tag {
    /// `#[compound] struct Pair(LTerm, LTerm)`
    Pair,
    /// `#[compound] struct Pair2(LTerm, LTerm)` — same arity, different type
    Pair2,
    /// `#[compound] struct Box1(LTerm)`
    Box1,
    /// `#[compound] struct Named { a: LTerm, b: LTerm }`
    Named,
    /// `#[compound] struct Rec(LTerm, Rec)` — recursive
    Rec,
    /// Rust tuple `(LTerm, LTerm)`
    Tuple,
    /// `Option<LTerm>::Some`
    Some,
    /// `#[compound] struct Holder { item: Option<LTerm>, tag: LTerm }`: the first field is an
    /// `OptSome(x)` or an `OptNone`
    Holder,
    /// the `Some(x)` / `None` of an `Option<LTerm>` FIELD of a compound struct (a nested object
    /// with one child or none; both have the same Rust type)
    OptSome,
    OptNone,
    /// `#[compound] struct Holder2(LTerm, Option<LTerm>)`: a term field BEFORE the Option field
    Holder2,
    /// `#[compound] struct Outer { tag: LTerm, leaf: Named }`: a field whose declared type is
    /// another (named-field) compound
    Outer,
}

impl Tag {
    pub fn arity(self) -> usize {
        match self {
            Tag::Pair | Tag::Pair2 | Tag::Named | Tag::Rec | Tag::Tuple | Tag::Holder | Tag::Holder2 | Tag::Outer => 2,
            Tag::Box1 | Tag::Some | Tag::OptSome => 1,
            Tag::OptNone => 0,
        }
    }
    pub fn name(self) -> &'static str {
        match self {
            Tag::Pair => "Pair",
            Tag::Pair2 => "Pair2",
            Tag::Box1 => "Box1",
            Tag::Named => "Named",
            Tag::Rec => "Rec",
            Tag::Tuple => "Tuple",
            Tag::Some => "Some",
            Tag::Holder => "Holder",
            Tag::OptSome => "OptSome",
            Tag::OptNone => "OptNone",
            Tag::Holder2 => "Holder2",
            Tag::Outer => "Outer",
        }
    }
    pub const ALL: [Tag; 12] = [
        Tag::Pair,
        Tag::Pair2,
        Tag::Box1,
        Tag::Named,
        Tag::Rec,
        Tag::Tuple,
        Tag::Some,
        Tag::Holder,
        Tag::OptSome,
        Tag::OptNone,
        Tag::Holder2,
        Tag::Outer,
    ];
}

#[derive(Clone, PartialEq, Eq, Hash, PartialOrd, Ord, Debug)]
pub enum T {
    /// program variable (index into the variable table)
    V(u32),
    /// reified / unknown variable in an observed answer, canonical index by first occurrence
    A(u32),
    I(i64),
    B(bool),
    C(char),
    S(String),
    Nil,
    Cons(Box<T>, Box<T>),
    Cmp(Tag, Vec<T>),
    /// the anonymous variable `_` of the surface syntax: every occurrence is a new variable
    W,
}

impl T {
    pub fn cons(h: T, t: T) -> T {
        T::Cons(Box::new(h), Box::new(t))
    }
    pub fn list(items: Vec<T>) -> T {
        let mut t = T::Nil;
        for i in items.into_iter().rev() {
            t = T::cons(i, t);
        }
        t
    }
    pub fn improper(items: Vec<T>, tail: T) -> T {
        let mut t = tail;
        for i in items.into_iter().rev() {
            t = T::cons(i, t);
        }
        t
    }
    pub fn is_var(&self) -> bool {
        matches!(self, T::V(_) | T::A(_))
    }
    pub fn is_ground(&self) -> bool {
        match self {
            T::V(_) | T::A(_) | T::W => false,
            T::Cons(h, t) => h.is_ground() && t.is_ground(),
            T::Cmp(_, fs) => fs.iter().all(|f| f.is_ground()),
            _ => true,
        }
    }
    pub fn size(&self) -> usize {
        match self {
            T::Cons(h, t) => 1 + h.size() + t.size(),
            T::Cmp(_, fs) => 1 + fs.iter().map(|f| f.size()).sum::<usize>(),
            _ => 1,
        }
    }
    pub fn depth(&self) -> usize {
        match self {
            T::Cons(h, t) => (1 + h.depth()).max(t.depth()),
            T::Cmp(_, fs) => 1 + fs.iter().map(|f| f.depth()).max().unwrap_or(0),
            _ => 0,
        }
    }
    pub fn vars(&self, out: &mut Vec<T>) {
        match self {
            T::V(_) | T::A(_) => {
                if !out.contains(self) {
                    out.push(self.clone())
                }
            }
            T::Cons(h, t) => {
                h.vars(out);
                t.vars(out);
            }
            T::Cmp(_, fs) => fs.iter().for_each(|f| f.vars(out)),
            _ => {}
        }
    }
    pub fn has_var(&self, v: &T) -> bool {
        match self {
            T::V(_) | T::A(_) => self == v,
            T::Cons(h, t) => h.has_var(v) || t.has_var(v),
            T::Cmp(_, fs) => fs.iter().any(|f| f.has_var(v)),
            _ => false,
        }
    }
    /// Elements of a list term and its final tail (Nil for proper lists).
    pub fn list_parts(&self) -> (Vec<&T>, &T) {
        let mut items = vec![];
        let mut cur = self;
        while let T::Cons(h, t) = cur {
            items.push(h.as_ref());
            cur = t.as_ref();
        }
        (items, cur)
    }
    pub fn map_vars(&self, f: &mut dyn FnMut(&T) -> T) -> T {
        match self {
            T::V(_) | T::A(_) => f(self),
            T::Cons(h, t) => T::cons(h.map_vars(f), t.map_vars(f)),
            T::Cmp(tag, fs) => T::Cmp(*tag, fs.iter().map(|x| x.map_vars(f)).collect()),
            _ => self.clone(),
        }
    }
    /// The term denoted when `Option` is read as the library converts it: `Some(t)` is `t`.
    pub fn strip_some(&self) -> T {
        match self {
            T::Cmp(Tag::Some, fs) => fs[0].strip_some(),
            T::Cons(h, t) => T::cons(h.strip_some(), t.strip_some()),
            T::Cmp(tag, fs) => T::Cmp(*tag, fs.iter().map(|f| f.strip_some()).collect()),
            _ => self.clone(),
        }
    }

    /// Encodes every constructor (cons, nil, compounds) as a tagged proper list, so that the
    /// term algebra is isomorphic but built from lists and atoms only (C20 twin).
    pub fn to_tagged_list(&self) -> T {
        match self {
            T::Nil => T::list(vec![T::S("nil".into())]),
            T::Cons(h, t) => T::list(vec![
                T::S("cons".into()),
                h.to_tagged_list(),
                t.to_tagged_list(),
            ]),
            T::Cmp(tag, fs) => {
                let mut v = vec![T::S(format!("cmp:{}", tag.name()))];
                v.extend(fs.iter().map(|f| f.to_tagged_list()));
                T::list(v)
            }
            _ => self.clone(),
        }
    }
    pub fn from_tagged_list(&self) -> Option<T> {
        match self {
            T::Cons(_, _) => {
                let (items, tail) = self.list_parts();
                if *tail != T::Nil {
                    return None;
                }
                let head = match items.first() {
                    Some(T::S(s)) => s.as_str(),
                    _ => return None,
                };
                if head == "nil" && items.len() == 1 {
                    Some(T::Nil)
                } else if head == "cons" && items.len() == 3 {
                    Some(T::cons(
                        items[1].from_tagged_list()?,
                        items[2].from_tagged_list()?,
                    ))
                } else if let Some(name) = head.strip_prefix("cmp:") {
                    let tag = Tag::ALL.iter().copied().find(|t| t.name() == name)?;
                    if items.len() != 1 + tag.arity() {
                        return None;
                    }
                    let mut fs = vec![];
                    for i in &items[1..] {
                        fs.push(i.from_tagged_list()?);
                    }
                    Some(T::Cmp(tag, fs))
                } else {
                    None
                }
            }
            T::Nil => None,
            T::S(s) if s == "nil" || s == "cons" || s.starts_with("cmp:") => None,
            _ => Some(self.clone()),
        }
    }
}

pub const VAR_NAMES: [&str; 12] = [
    "x", "y", "z", "w", "u", "v", "a", "b", "c", "d", "e", "f",
];

thread_local! {
    /// generated binder names get a leading underscore (C15: `_v7` is an ordinary variable name)
    pub static UNDERSCORE_NAMES: std::cell::Cell<u8> = std::cell::Cell::new(0);
}

pub fn var_name(i: u32) -> String {
    let base = if (i as usize) < VAR_NAMES.len() { VAR_NAMES[i as usize].to_string() } else { format!("v{}", i) };
    // every variable other than the two query variables is a binder of the program
    // mode 1: all binders; modes 2 and 3: every other pair of binders (the two asymmetric renamings)
    let mode = UNDERSCORE_NAMES.with(|u| u.get());
    if i >= 2 && (mode == 1 || (mode == 2 && (i / 2) % 2 == 1) || (mode == 3 && (i / 2) % 2 == 0)) {
        format!("_{}", base)
    } else {
        base
    }
}

impl fmt::Display for T {
    fn fmt(&self, f: &mut fmt::Formatter) -> fmt::Result {
        match self {
            T::V(i) => write!(f, "{}", var_name(*i)),
            T::A(i) => write!(f, "_.{}", i),
            T::W => write!(f, "_"),
            T::I(n) => write!(f, "{}", n),
            T::B(b) => write!(f, "{}", b),
            T::C(c) => write!(f, "{:?}", c),
            T::S(s) => write!(f, "{:?}", s),
            T::Nil => write!(f, "[]"),
            T::Cons(_, _) => {
                let (items, tail) = self.list_parts();
                write!(f, "[")?;
                for (i, it) in items.iter().enumerate() {
                    if i > 0 {
                        write!(f, ", ")?;
                    }
                    write!(f, "{}", it)?;
                }
                if *tail != T::Nil {
                    write!(f, " | {}", tail)?;
                }
                write!(f, "]")
            }
            T::Cmp(tag, fs) => {
                match tag {
                    Tag::Tuple => write!(f, "(")?,
                    _ => write!(f, "{}(", tag.name())?,
                }
                for (i, it) in fs.iter().enumerate() {
                    if i > 0 {
                        write!(f, ", ")?;
                    }
                    write!(f, "{}", it)?;
                }
                write!(f, ")")
            }
        }
    }
}

/// Finite-domain description.
#[derive(Clone, PartialEq, Eq, Hash, PartialOrd, Ord, Debug)]
pub enum Dom {
    Range(i64, i64),
    Sparse(Vec<i64>),
}

impl Dom {
    pub fn values(&self) -> Vec<i64> {
        match self {
            Dom::Range(a, b) => (*a..=*b).collect(),
            Dom::Sparse(v) => {
                let mut v = v.clone();
                v.sort();
                v.dedup();
                v
            }
        }
    }
}

impl fmt::Display for Dom {
    fn fmt(&self, f: &mut fmt::Formatter) -> fmt::Result {
        match self {
            Dom::Range(a, b) => write!(f, "{}..={}", a, b),
            Dom::Sparse(v) => write!(f, "{:?}", v),
        }
    }
}

#[derive(Clone, Copy, PartialEq, Eq, Hash, PartialOrd, Ord, Debug)]
pub enum FdKind {
    Lte,
    Lt,
    Diseq,
    Plus,
    Minus,
    Times,
}

impl FdKind {
    pub fn arity(self) -> usize {
        match self {
            FdKind::Lte | FdKind::Lt | FdKind::Diseq => 2,
            _ => 3,
        }
    }
    pub fn name(self) -> &'static str {
        match self {
            FdKind::Lte => "ltefd",
            FdKind::Lt => "ltfd",
            FdKind::Diseq => "diseqfd",
            FdKind::Plus => "plusfd",
            FdKind::Minus => "minusfd",
            FdKind::Times => "timesfd",
        }
    }
    pub fn holds(self, a: &[i64]) -> bool {
        match self {
            FdKind::Lte => a[0] <= a[1],
            FdKind::Lt => a[0] < a[1],
            FdKind::Diseq => a[0] != a[1],
            FdKind::Plus => a[0] + a[1] == a[2],
            FdKind::Minus => a[0] - a[1] == a[2],
            FdKind::Times => a[0] * a[1] == a[2],
        }
    }
    pub const ALL: [FdKind; 6] = [
        FdKind::Lte,
        FdKind::Lt,
        FdKind::Diseq,
        FdKind::Plus,
        FdKind::Minus,
        FdKind::Times,
    ];
}

/// Library list relations (C24).
#[derive(Clone, Copy, PartialEq, Eq, Hash, PartialOrd, Ord, Debug)]
pub enum Rel {
    Member,
    Member1,
    Append,
    Rember,
    Permute,
    Distinct,
    ConsR,
    First,
    Rest,
    Empty,
}

impl Rel {
    pub fn name(self) -> &'static str {
        match self {
            Rel::Member => "member",
            Rel::Member1 => "member1",
            Rel::Append => "append",
            Rel::Rember => "rember",
            Rel::Permute => "permute",
            Rel::Distinct => "distinct",
            Rel::ConsR => "cons",
            Rel::First => "first",
            Rel::Rest => "rest",
            Rel::Empty => "empty",
        }
    }
    pub fn arity(self) -> usize {
        match self {
            Rel::Member | Rel::Member1 | Rel::Permute | Rel::First | Rel::Rest => 2,
            Rel::Append | Rel::Rember | Rel::ConsR => 3,
            Rel::Distinct | Rel::Empty => 1,
        }
    }
}

#[derive(Clone, Copy, PartialEq, Eq, Hash, PartialOrd, Ord, Debug)]
pub enum MatchKind {
    Match,
    Matche,
    Matcha,
    Matchu,
}

impl MatchKind {
    pub fn name(self) -> &'static str {
        match self {
            MatchKind::Match => "match",
            MatchKind::Matche => "matche",
            MatchKind::Matcha => "matcha",
            MatchKind::Matchu => "matchu",
        }
    }
}

/// Goals. `Conde`'s arms are conjunctions. `Fresh` introduces the listed variable indices.
#[derive(Clone, PartialEq, Eq, Hash, PartialOrd, Ord, Debug)]
pub enum G {
    Succeed,
    Fail,
    Eq(T, T),
    Neq(T, T),
    Conj(Vec<G>),
    Conde(Vec<Vec<G>>),
    /// binary `Disj` chain built with `Disj::from_vec`
    Disj(Vec<G>),
    Fresh(Vec<u32>, Vec<G>),
    Closure(Box<G>),
    Conda(Vec<Vec<G>>),
    Condu(Vec<Vec<G>>),
    Onceo(Vec<G>),
    /// `dfs { .. }` wrapper: the body is built in DFS typing
    Dfs(Vec<G>),
    /// `loop { .. }` / anyo
    Anyo(Vec<G>),
    InFd(Vec<T>, Dom),
    Fd(FdKind, Vec<T>),
    DistinctFd(T),
    PlusZ(T, T, T),
    TimesZ(T, T, T),
    Rel(Rel, Vec<T>),
    /// for x in coll { body } : `x` is variable index, body uses it; the collection is a Vec<LTerm>
    For(u32, Vec<T>, Vec<G>),
    /// the same with the collection given as an LTerm list
    ForList(u32, Vec<T>, Vec<G>),
    /// project |vars| { body }
    Project(Vec<u32>, Vec<G>),
    /// pattern matching: kind, matched term, arms (alternative patterns, body)
    Match(MatchKind, T, Vec<(Vec<T>, Vec<G>)>),
    /// call of a user relation defined in the surface crate (see `surface::USER_RELS`)
    Call(String, Vec<T>),
    /// harness fngoal: succeeds iff the (walked) term is a ground number list summing to n etc.
    Probe(u32),
}

fn join<I: fmt::Display>(items: &[I], sep: &str) -> String {
    items
        .iter()
        .map(|i| i.to_string())
        .collect::<Vec<_>>()
        .join(sep)
}

fn arms(f: &mut fmt::Formatter, name: &str, arms: &Vec<Vec<G>>) -> fmt::Result {
    write!(f, "{} {{ ", name)?;
    for (i, a) in arms.iter().enumerate() {
        if i > 0 {
            write!(f, ", ")?;
        }
        if a.len() == 1 {
            write!(f, "{}", a[0])?;
        } else {
            write!(f, "[{}]", join(a, ", "))?;
        }
    }
    write!(f, " }}")
}

impl fmt::Display for G {
    fn fmt(&self, f: &mut fmt::Formatter) -> fmt::Result {
        match self {
            G::Succeed => write!(f, "true"),
            G::Fail => write!(f, "false"),
            G::Eq(a, b) => write!(f, "{} == {}", a, b),
            G::Neq(a, b) => write!(f, "{} != {}", a, b),
            G::Conj(gs) => write!(f, "[{}]", join(gs, ", ")),
            G::Conde(a) => arms(f, "conde", a),
            G::Disj(gs) => write!(f, "disj {{ {} }}", join(gs, ", ")),
            G::Fresh(vs, gs) => write!(
                f,
                "|{}| {{ {} }}",
                vs.iter().map(|v| var_name(*v)).collect::<Vec<_>>().join(", "),
                join(gs, ", ")
            ),
            G::Closure(g) => write!(f, "closure {{ {} }}", g),
            G::Conda(a) => arms(f, "conda", a),
            G::Condu(a) => arms(f, "condu", a),
            G::Onceo(gs) => write!(f, "onceo {{ {} }}", join(gs, ", ")),
            G::Dfs(gs) => write!(f, "dfs {{ {} }}", join(gs, ", ")),
            G::Anyo(gs) => write!(f, "loop {{ {} }}", join(gs, ", ")),
            G::InFd(ts, d) => match d {
                Dom::Range(a, b) => write!(f, "infdrange([{}], &({}..={}))", join(ts, ", "), a, b),
                Dom::Sparse(v) => write!(f, "infd([{}], &{:?})", join(ts, ", "), v),
            },
            G::Fd(k, ts) => write!(f, "{}({})", k.name(), join(ts, ", ")),
            G::DistinctFd(t) => write!(f, "distinctfd({})", t),
            G::PlusZ(a, b, c) => write!(f, "plusz({}, {}, {})", a, b, c),
            G::TimesZ(a, b, c) => write!(f, "timesz({}, {}, {})", a, b, c),
            G::Rel(r, ts) => write!(f, "{}({})", r.name(), join(ts, ", ")),
            G::For(x, coll, body) => write!(
                f,
                "for {} in &[{}] {{ {} }}",
                var_name(*x),
                join(coll, ", "),
                join(body, ", ")
            ),
            G::ForList(x, coll, body) => write!(
                f,
                "for {} in &lterm!([{}]) {{ {} }}",
                var_name(*x),
                join(coll, ", "),
                join(body, ", ")
            ),
            G::Project(vs, gs) => write!(
                f,
                "project |{}| {{ {} }}",
                vs.iter().map(|v| var_name(*v)).collect::<Vec<_>>().join(", "),
                join(gs, ", ")
            ),
            G::Match(kind, t, arms) => {
                write!(f, "{} {} {{ ", kind.name(), t)?;
                for (pats, body) in arms {
                    write!(f, "{} => ", join(pats, " | "))?;
                    match body.len() {
                        0 => write!(f, ", ")?,
                        1 => write!(f, "{}, ", body[0])?,
                        _ => write!(f, "{{ {} }}, ", join(body, ", "))?,
                    }
                }
                write!(f, "}}")
            }
            G::Call(name, args) => write!(f, "{}({})", name, join(args, ", ")),
            G::Probe(k) => write!(f, "probe#{}", k),
        }
    }
}

/// A query: `nq` query variables (indices 0..nq), `nvars` total variables used, a body.
#[derive(Clone, PartialEq, Eq, Hash, Debug)]
pub struct Program {
    pub nq: u32,
    pub body: Vec<G>,
}

impl fmt::Display for Program {
    fn fmt(&self, f: &mut fmt::Formatter) -> fmt::Result {
        write!(
            f,
            "|{}| {{ {} }}",
            (0..self.nq).map(var_name).collect::<Vec<_>>().join(", "),
            join(&self.body, ", ")
        )
    }
}
