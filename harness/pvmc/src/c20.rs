//! C20: compound terms unify, constrain, reify and label structurally.
//!  (a) E1: the C01 exploration over a universe with every compound kind incl. Option, run on the
//!      compound terms and on their tagged-list twins, both in lock-step with the reference
//!      unifier (so compound and list algebra agree transition by transition);
//!  (b) E3 twin: eq/diseq/reification programs (C03 family) and FD labeling programs with
//!      compound-shaped answers, executed as written and with every constructor encoded as a
//!      tagged proper list; decoded answers must coincide.
use crate::ast::*;
use crate::c01;
use crate::c03;
use crate::conv::Ans;
use crate::ev::{Ctx, Violation};
use crate::fd;
use crate::pool::par_map;
use crate::run::{panic_site, run_query, End};
use serde_json::{json, Value};

fn twin_goal(g: &G) -> G {
    let tt = |t: &T| t.to_tagged_list();
    match g {
        G::Eq(a, b) => G::Eq(tt(a), tt(b)),
        G::Neq(a, b) => G::Neq(tt(a), tt(b)),
        G::Conj(gs) => G::Conj(gs.iter().map(twin_goal).collect()),
        G::Conde(arms) => G::Conde(arms.iter().map(|a| a.iter().map(twin_goal).collect()).collect()),
        G::Fresh(vs, gs) => G::Fresh(vs.clone(), gs.iter().map(twin_goal).collect()),
        other => other.clone(),
    }
}

fn decode_twin(t: &T) -> T {
    if t.is_var() {
        t.clone()
    } else {
        t.from_tagged_list().unwrap_or_else(|| T::S(format!("<undecodable {}>", t)))
    }
}

fn canon_answer(a: &Ans, twin: bool) -> String {
    let d = |t: &T| if twin { decode_twin(t) } else { t.clone() };
    let terms: Vec<String> = a.terms.iter().map(|t| d(t).to_string()).collect();
    let mut cons: Vec<String> = a
        .cons
        .iter()
        .map(|c| {
            let mut v: Vec<String> = c.iter().map(|(l, r)| format!("{} != {}", d(l), d(r))).collect();
            v.sort();
            v.join(" | ")
        })
        .collect();
    cons.sort();
    // what each query variable's result reports as ITS constraints (the ones that mention a
    // variable occurring anywhere inside its value, however it is nested)
    let per_var: Vec<Vec<String>> = a
        .per_var
        .iter()
        .map(|cs| {
            let mut out: Vec<String> = cs
                .iter()
                .map(|c| {
                    let mut v: Vec<String> = c.iter().map(|(l, r)| format!("{} != {}", d(l), d(r))).collect();
                    v.sort();
                    v.join(" | ")
                })
                .collect();
            out.sort();
            out
        })
        .collect();
    format!("({}) where {:?} per variable {:?}", terms.join(", "), cons, per_var)
}

fn check_twin(p: &Program, family: &str, index: usize) -> (Vec<Violation>, bool) {
    crate::ev::progress(family, index, &Value::Null);
    let nvars = crate::run::nvars_of(p.nq, &p.body);
    let tp = Program { nq: p.nq, body: p.body.iter().map(twin_goal).collect() };
    let a = run_query(nvars, p, 300, 1_000_000);
    let b = run_query(nvars, &tp, 300, 1_000_000);
    let sig = p.to_string();
    let mk = |kind: &str, detail: String, site: String| Violation { kind: kind.into(), sig: sig.clone(), site, detail, family: family.into(), index, schedule: vec![], data: Value::Null };
    let mut viols = vec![];
    if let End::Panic(m) = &a.end {
        viols.push(mk("panic", m.clone(), panic_site(m)));
        return (viols, false);
    }
    if let End::Panic(m) = &b.end {
        viols.push(mk("panic-in-list-twin", m.clone(), panic_site(m)));
        return (viols, false);
    }
    let mut ca: Vec<String> = a.answers.iter().map(|x| canon_answer(x, false)).collect();
    let mut cb: Vec<String> = b.answers.iter().map(|x| canon_answer(x, true)).collect();
    ca.sort();
    cb.sort();
    if ca != cb || a.end != b.end {
        viols.push(mk("compound-differs-from-list-twin", format!("with compound terms: {:?} ({:?}); with every constructor encoded as a tagged list: {:?} ({:?})", ca, a.end, cb, b.end), String::new()));
    }
    let has_compound = ca.iter().any(|s| s.contains("Pair") || s.contains("Box1") || s.contains("Named") || s.contains("Rec(") || s.contains("(("));
    (viols, has_compound && !ca.is_empty())
}

pub fn run(ctx: &mut Ctx) {
    let quick = ctx.quick();
    ctx.set("rule", json!("(a) E1: BFS over substitution states as in C01 with a universe containing named, tuple-like, nested and recursive #[compound] structs, Rust tuples and Option, once on the compound terms and once on their tagged-list twins (cons/nil/constructors as tagged proper lists), each transition compared with the reference unifier (success iff same constructor and fields unify pairwise; compound vs list/literal never unify; occurs check through fields; walk* images). (b) E3 twin: the C03 reification/disequality programs and the FD labeling programs with compound-shaped answers executed as written and list-encoded; decoded answer multisets (terms and reported constraints) must be identical. distinct_nontrivial = states (a) + programs with compound answers (b)."));
    // (a)
    let u = c01::universe(quick, true, true);
    let depth = 2;
    ctx.set("universe_terms", json!(u.len()));
    ctx.set("depth", json!(depth));
    let s1 = c01::bfs(ctx, &u, depth, "c20-direct", false, usize::MAX);
    let s2 = c01::bfs(ctx, &u, depth, "c20-twin", true, usize::MAX);
    // (b)
    let mut evals = 0u64;
    let mut nontrivial = 0u64;
    let fams: Vec<(&str, Vec<Program>)> = vec![("c20-reify-twin", c03::programs(quick, true)), ("c20-fd-twin", fd::tier3(quick))];
    for (name, progs) in &fams {
        let sel: Vec<usize> = match &ctx.replay {
            Some(r) if r.family == *name => vec![r.index],
            Some(_) => vec![],
            None => (0..progs.len()).collect(),
        };
        let res = par_map(&sel, |_, i| check_twin(&progs[*i], name, *i));
        for (vs, nt) in res {
            evals += 2;
            if nt {
                nontrivial += 1;
                ctx.hist("programs-with-compound-answers", 1);
            }
            for v in vs {
                ctx.violation(v);
            }
        }
        ctx.hist(&format!("{}:programs", name), sel.len() as u64);
        if let Some(p) = progs.get(progs.len() / 3) {
            ctx.sample(json!({"family": name, "program": p.to_string(), "twin": Program { nq: p.nq, body: p.body.iter().map(twin_goal).collect() }.to_string()}));
        }
    }
    ctx.set("states", json!(s1.states + s2.states));
    ctx.set("transitions", json!(s1.transitions + s2.transitions + evals));
    ctx.set("traces_validated_against_impl", json!(s1.transitions + s2.transitions + evals));
    ctx.set("evaluations", json!(s1.transitions + s2.transitions + evals));
    ctx.set("distinct_nontrivial", json!(s1.states + nontrivial));
    ctx.set("states_per_level", json!({"direct": s1.levels, "twin": s2.levels}));
    if ctx.replay.is_none() {
        ctx.require_nonzero("programs-with-compound-answers");
        ctx.require_nonzero("bound");
        ctx.require_nonzero("refused-occurs-check");
    }
    ctx.sample(json!({"universe_sample": u.iter().filter(|t| matches!(t, T::Cmp(_, _))).take(6).map(|t| format!("{}  ~  {}", t, t.to_tagged_list())).collect::<Vec<_>>()}));
    ctx.assume("named-struct and tuple-struct constructors are built through the generated Rust types (the surface syntax for them is exercised by C13/C14)");
}
