//! Denotations of answers over a finite universe, with a shared cache.
use crate::ast::*;
use crate::conv::{raw_iter, Dec, Env};
use crate::refm::{AnsSet, Universe};
use proto_vulcan::engine::Engine;
use proto_vulcan::relation::diseq::DisequalityConstraint;
use proto_vulcan::state::State;
use proto_vulcan::user::User;
use std::collections::HashMap;
use std::sync::{Arc, Mutex};

type Key = (Vec<T>, Vec<Vec<(T, T)>>);

pub struct Den {
    pub u: Universe,
    shards: Vec<Mutex<HashMap<Key, Arc<Vec<u64>>>>>,
}

fn shard_of(k: &Key) -> usize {
    use std::hash::{Hash, Hasher};
    let mut h = std::collections::hash_map::DefaultHasher::new();
    k.hash(&mut h);
    (h.finish() % 64) as usize
}

pub fn normal(a: &AnsSet) -> Key {
    // Rename variables by first occurrence (tuple first, then constraints) so that answers equal
    // up to renaming share a cache entry. Constraint order is irrelevant: sort.
    let mut map: HashMap<T, u32> = HashMap::new();
    let mut rn = |t: &T| -> T {
        t.map_vars(&mut |v| {
            let n = map.len() as u32;
            T::A(*map.entry(v.clone()).or_insert(n))
        })
    };
    let tuple: Vec<T> = a.tuple.iter().map(|t| rn(t)).collect();
    // constraints mention tuple variables mostly; rename in a deterministic order
    let mut neqs: Vec<Vec<(T, T)>> = a.neqs.clone();
    for d in neqs.iter_mut() {
        d.sort();
    }
    neqs.sort();
    let mut neqs: Vec<Vec<(T, T)>> = neqs
        .iter()
        .map(|d| d.iter().map(|(x, y)| (rn(x), rn(y))).collect())
        .collect();
    for d in neqs.iter_mut() {
        d.sort();
    }
    neqs.sort();
    neqs.dedup();
    (tuple, neqs)
}

impl Den {
    pub fn new(u: Universe) -> Den {
        Den {
            u,
            shards: (0..64).map(|_| Mutex::new(HashMap::new())).collect(),
        }
    }

    pub fn bits(&self, a: &AnsSet) -> Arc<Vec<u64>> {
        let k = normal(a);
        let sh = &self.shards[shard_of(&k)];
        if let Some(b) = sh.lock().unwrap().get(&k) {
            return Arc::clone(b);
        }
        let canon = AnsSet {
            tuple: k.0.clone(),
            neqs: k.1.clone(),
        };
        let b = Arc::new(self.u.tabulate(&canon));
        sh.lock().unwrap().insert(k, Arc::clone(&b));
        b
    }

    pub fn empty(&self) -> Vec<u64> {
        vec![0u64; (self.u.size() + 63) / 64]
    }

    pub fn distinct_cached(&self) -> usize {
        self.shards.iter().map(|s| s.lock().unwrap().len()).sum()
    }

    pub fn show_tuple(&self, idx: usize) -> String {
        let t = self.u.tuple(idx);
        format!("({})", t.iter().map(|x| x.to_string()).collect::<Vec<_>>().join(", "))
    }
}

/// State-level observation: the images of the first `nq` table variables and the stored
/// disequalities, all walked through the state's substitution.
pub fn observe_state<U: User, E: Engine<U>>(env: &Env<U, E>, st: &State<U, E>, nq: usize) -> (AnsSet, usize) {
    let mut dec = Dec::new(Some(env));
    let smap = st.smap_ref();
    let tuple: Vec<T> = (0..nq).map(|i| dec.dec(&smap.walk_star(&env.vars[i]))).collect();
    let mut neqs = vec![];
    let mut others = 0;
    for c in raw_iter(st.cstore_ref()) {
        if let Some(tree) = c.downcast_ref::<DisequalityConstraint<U, E>>() {
            let mut d: Vec<(T, T)> = std::ops::Deref::deref(tree.smap_ref())
                .iter()
                .map(|(k, v)| (dec.dec(&smap.walk_star(k)), dec.dec(&smap.walk_star(v))))
                .collect();
            d.sort();
            neqs.push(d);
        } else {
            others += 1;
        }
    }
    neqs.sort();
    (AnsSet { tuple, neqs }, others)
}

/// Exact key of a constraint state: direct bindings of all table variables plus the multiset of
/// stored disequalities (unwalked, as stored).
pub fn state_key<U: User, E: Engine<U>>(env: &Env<U, E>, st: &State<U, E>) -> (Vec<Option<T>>, Vec<Vec<(T, T)>>) {
    let mut dec = Dec::new(Some(env));
    let b: Vec<Option<T>> = env.vars.iter().map(|v| st.smap_ref().get(v).map(|t| dec.dec(t))).collect();
    let mut cs = vec![];
    for c in raw_iter(st.cstore_ref()) {
        if let Some(tree) = c.downcast_ref::<DisequalityConstraint<U, E>>() {
            let mut d: Vec<(T, T)> = std::ops::Deref::deref(tree.smap_ref())
                .iter()
                .map(|(k, v)| (dec.dec(k), dec.dec(v)))
                .collect();
            d.sort();
            cs.push(d);
        }
    }
    cs.sort();
    (b, cs)
}
