//! C07, long horizon: the library's own infinite generators (`always()`, `loop { .. }`, `never()`)
//! in disjunctions, run through the public query iterator for N answers on a thread with the
//! default stack size of a Rust thread (2 MiB). Within the horizon every branch must have
//! yielded its share; a search that stops yielding (step budget exhausted, panic, the process
//! aborting on stack exhaustion) after some thousands of answers is a branch that does not
//! yield infinitely often. The short-horizon exploration over scripted branches is in
//! `c_engine`; this family only deepens the horizon for the relations a user actually writes.
use crate::ev::{Ctx, Violation};
use crate::run::panic_site;
use proto_vulcan::prelude::*;
use proto_vulcan::relation::always::always;
use proto_vulcan::relation::never::never;
use proto_vulcan::operator::conde::conde;
use proto_vulcan::verif;
use serde_json::json;
use std::collections::BTreeMap;

pub const FAMILY: &str = "c07-long";
const STACK: usize = 2 << 20;

pub struct LongCase {
    pub text: &'static str,
    /// value -> minimal number of occurrences among the first n answers, as a fraction n / d
    pub shares: Vec<(&'static str, u64)>,
    /// the horizon is divided by this (generators whose cost per answer grows with the number
    /// of answers already given, which is slow but not unfair)
    pub slow: usize,
    pub run: fn(usize) -> BTreeMap<String, u64>,
}

macro_rules! long_case {
    ($text:expr, $slow:expr, [$(($v:expr, $d:expr)),*], |$q:ident| { $($body:tt)* }) => {
        LongCase {
            text: $text,
            slow: $slow,
            shares: vec![$(($v, $d)),*],
            run: |n: usize| {
                let query = proto_vulcan_query!(|$q| { $($body)* });
                let mut counts: BTreeMap<String, u64> = BTreeMap::new();
                for r in query.run().take(n) {
                    *counts.entry(format!("{}", r.$q)).or_insert(0) += 1;
                }
                counts
            },
        }
    };
}

pub fn cases() -> Vec<LongCase> {
    vec![
        long_case!("always(), q == 1", 1, [("1", 1)], |q| { always(), q == 1 }),
        long_case!("conde { [always(), q == 1], [always(), q == 2] }", 1, [("1", 3), ("2", 3)], |q| {
            conde { [always(), q == 1], [always(), q == 2] }
        }),
        long_case!("conde { [always(), q == 1, q == 2], [always(), q == 3] }", 1, [("3", 1)], |q| {
            conde { [always(), q == 1, q == 2], [always(), q == 3] }
        }),
        long_case!("conde { [always(), q == 1], [always(), q == 2], [always(), q == 3] }", 1, [("1", 9), ("2", 9), ("3", 9)], |q| {
            conde { [always(), q == 1], [always(), q == 2], [always(), q == 3] }
        }),
        long_case!("loop { conde { q == 1, q == 2 } }", 20, [("1", 3), ("2", 3)], |q| { loop { conde { q == 1, q == 2 } } }),
        long_case!("|x| { always(), conde { x == 1, x == 2 }, q == x }", 1, [("1", 3), ("2", 3)], |q| {
            |x| { always(), conde { x == 1, x == 2 }, q == x }
        }),
        long_case!("loop { q == 1 }", 20, [("1", 1)], |q| { loop { q == 1 } }),
        long_case!("conde { [loop { q == 1 }], [loop { q == 2 }] }", 20, [("1", 3), ("2", 3)], |q| { conde { [loop { q == 1 }], [loop { q == 2 }] } }),
        long_case!("conde { never(), [always(), q == 1] }", 1, [("1", 1)], |q| { conde { never(), [always(), q == 1] } }),
        long_case!("conde { [always(), q == 1], never() }", 1, [("1", 1)], |q| { conde { [always(), q == 1], never() } }),
    ]
}

/// 100 000 / 1 000 000 answers; 5 000 / 20 000 for the generators with growing cost per answer.
fn horizon(n_full: usize, slow: usize) -> usize {
    if slow > 1 {
        if n_full > 100_000 { 20_000 } else { 5_000 }
    } else {
        n_full
    }
}

fn budget(n: usize) -> u64 {
    let n = n as u64;
    n * 2000 + 64 * n * n
}

pub fn run(ctx: &mut Ctx) {
    let n_full: usize = if ctx.quick() { 100_000 } else { 1_000_000 };
    let cs = cases();
    let sel: Vec<usize> = match &ctx.replay {
        Some(r) if r.family == FAMILY => vec![r.index],
        Some(_) => vec![],
        None => (0..cs.len()).collect(),
    };
    // one case at a time per thread of default stack size; the cases are independent
    let results: Vec<(usize, Result<BTreeMap<String, u64>, String>, u64)> = std::thread::scope(|s| {
        let hs: Vec<_> = sel
            .iter()
            .map(|&i| {
                let c = &cs[i];
                let n = horizon(n_full, c.slow);
                std::thread::Builder::new()
                    .stack_size(STACK)
                    .spawn_scoped(s, move || {
                        crate::ev::progress(FAMILY, i, &serde_json::Value::Null);
                        verif::reset_steps();
                        // a fair search needs a few dozen steps per answer here (plus, for loop{}
                        // over a goal that binds, a few per answer already given); the budget is
                        // far above both and finite for none that starves a branch
                        verif::set_budget(budget(n));
                        let r = std::panic::catch_unwind(|| (c.run)(n));
                        let steps = verif::steps();
                        verif::set_budget(u64::MAX);
                        crate::ev::progress_clear();
                        let r = r.map_err(|e| {
                            if e.downcast_ref::<verif::BudgetExceeded>().is_some() {
                                "step budget exhausted".to_string()
                            } else if let Some(s) = e.downcast_ref::<String>() {
                                s.clone()
                            } else if let Some(s) = e.downcast_ref::<&str>() {
                                s.to_string()
                            } else {
                                "panic".to_string()
                            }
                        });
                        (i, r, steps)
                    })
                    .expect("spawn")
            })
            .collect();
        hs.into_iter().map(|h| h.join().expect("long-run thread died (harness bug)")).collect()
    });
    let mut total_steps = 0u64;
    for (i, r, steps) in results {
        let c = &cs[i];
        let n = horizon(n_full, c.slow);
        total_steps += steps;
        let mk = |kind: &str, detail: String, site: String| Violation {
            kind: kind.into(),
            sig: c.text.to_string(),
            site,
            detail,
            family: FAMILY.into(),
            index: i,
            schedule: vec![],
            data: serde_json::Value::Null,
        };
        match r {
            Err(msg) if msg == "step budget exhausted" => {
                ctx.violation(mk("starved", format!("{}: fewer than {} answers within {} engine steps", c.text, n, budget(n)), String::new()));
            }
            Err(msg) => {
                let site = panic_site(&msg);
                ctx.violation(mk("panic", format!("{}: {}", c.text, msg), site));
            }
            Ok(counts) => {
                let got: u64 = counts.values().sum();
                if got != n as u64 {
                    ctx.violation(mk("search-ended", format!("{}: the search ended after {} of {} answers", c.text, got, n), String::new()));
                    continue;
                }
                for (v, d) in &c.shares {
                    let have = counts.get(*v).copied().unwrap_or(0);
                    let want = (n as u64 / d).saturating_sub(2);
                    if have < want {
                        ctx.violation(mk(
                            "starved",
                            format!("{}: value {} appears {} times among the first {} answers (a fair search gives at least {}); counts {:?}", c.text, v, have, n, want, counts),
                            String::new(),
                        ));
                    }
                }
                let expected_values: Vec<&str> = c.shares.iter().map(|s| s.0).collect();
                for v in counts.keys() {
                    if !expected_values.contains(&v.as_str()) {
                        ctx.violation(mk("wrong-answer", format!("{}: answer {} is not an answer of any branch", c.text, v), String::new()));
                    }
                }
                ctx.hist("long-horizon-cases-fair", 1);
            }
        }
    }
    ctx.add("evaluations", sel.len() as u64);
    ctx.add("traces_validated_against_impl", sel.len() as u64);
    ctx.add("engine_steps", total_steps);
    ctx.add("transitions", total_steps);
    ctx.set("long_horizon_answers_per_case", json!(n_full));
    ctx.hist(&format!("{}:cases", FAMILY), sel.len() as u64);
    for (i, c) in cs.iter().enumerate().take(3) {
        ctx.sample(json!({"family": FAMILY, "index": i, "case": c.text, "answers_taken": horizon(n_full, c.slow)}));
    }
}
