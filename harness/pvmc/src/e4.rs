//! E4: exploration of the search engine with scripted leaf goals.
//!
//! A leaf goal answers according to a script over A (answer), D (one lazy step) with a tail
//! End / silent divergence / produce-forever, in several stream encodings, so that every arm of
//! Stream::{mplus, bind, mplus_dfs, bind_dfs} and of StreamEngine::step is reached. Each answer
//! appends (leaf id, ordinal) to a trace kept in the User state (cloned per branch by the
//! library), so an answer's trace identifies the path that produced it.
use proto_vulcan::engine::Engine;
use proto_vulcan::goal::{AnyGoal, DFSGoal, Goal, GoalCast};
use proto_vulcan::operator::closure::Closure;
use proto_vulcan::operator::conda::Conda;
use proto_vulcan::operator::conde::Conde;
use proto_vulcan::operator::condu::Condu;
use proto_vulcan::operator::conj::{Conj, DFSConj, InferredConj};
use proto_vulcan::operator::disj::{DFSDisj, Disj};
use proto_vulcan::operator::fresh::Fresh;
use proto_vulcan::operator::{ClosureOperatorParam, OperatorParam, PatternMatchOperatorParam};
use proto_vulcan::solver::{Solve, Solver};
use proto_vulcan::state::State;
use proto_vulcan::stream::{LazyStream, Stream, StreamEngine, StreamIterator};
use proto_vulcan::user::User;
use std::fmt;
use std::rc::Rc;

pub type Entry = (u16, u16);
pub type Trace = Vec<Entry>;

#[derive(Clone, Debug, Default)]
pub struct TraceUser {
    pub trace: Trace,
}

impl User for TraceUser {
    type UserTerm = ();
    type UserContext = ();
}

pub type TU = TraceUser;
pub type TE = StreamEngine<TraceUser>;

#[derive(Clone, Copy, PartialEq, Eq, Hash, Debug, PartialOrd, Ord)]
pub enum Item {
    A,
    D,
}

#[derive(Clone, Copy, PartialEq, Eq, Hash, Debug, PartialOrd, Ord)]
pub enum Tail {
    End,
    /// never answers again, never ends
    Diverge,
    /// answers forever: (A D)*
    Forever,
}

#[derive(Clone, PartialEq, Eq, Hash, Debug, PartialOrd, Ord)]
pub struct Script {
    pub items: Vec<Item>,
    pub tail: Tail,
}

impl Script {
    pub fn parse(s: &str) -> Script {
        let mut items = vec![];
        let mut tail = Tail::End;
        for c in s.chars() {
            match c {
                'A' => items.push(Item::A),
                'D' => items.push(Item::D),
                'N' => tail = Tail::Diverge,
                'F' => tail = Tail::Forever,
                _ => panic!("bad script char"),
            }
        }
        Script { items, tail }
    }
    pub fn finite(&self) -> bool {
        self.tail == Tail::End
    }
    /// number of answers; None = infinitely many
    pub fn answers(&self) -> Option<usize> {
        match self.tail {
            Tail::Forever => None,
            _ => Some(self.items.iter().filter(|i| **i == Item::A).count()),
        }
    }
    pub fn has_answer(&self) -> bool {
        self.answers() != Some(0)
    }
}

impl fmt::Display for Script {
    fn fmt(&self, f: &mut fmt::Formatter) -> fmt::Result {
        for i in &self.items {
            write!(f, "{}", if *i == Item::A { "A" } else { "D" })?;
        }
        match self.tail {
            Tail::End => write!(f, "."),
            Tail::Diverge => write!(f, "~"),
            Tail::Forever => write!(f, "(AD)*"),
        }
    }
}

#[derive(Clone, Copy, PartialEq, Eq, Hash, Debug, PartialOrd, Ord)]
pub enum Enc {
    /// lazy rest through Pause / PauseDFS, last answer as Unit
    Pause,
    /// eager finite rest through Lazy::Delay, last answer as Cons(s, delay(Empty))
    Delay,
    /// Lazy::Iterator with a scripted StreamIterator
    Iter,
}

#[derive(Clone, Debug)]
pub struct Leaf {
    pub id: u16,
    pub script: Rc<Script>,
    pub enc: Enc,
    pub dfs: bool,
    pos: usize,
    count: u16,
}

impl Leaf {
    pub fn new(id: u16, script: Script, enc: Enc, dfs: bool) -> Leaf {
        Leaf { id, script: Rc::new(script), enc, dfs, pos: 0, count: 0 }
    }
    fn at(&self, pos: usize, count: u16) -> Leaf {
        Leaf { pos, count, ..self.clone() }
    }
    fn answer_state(&self, state: &State<TU, TE>, count: u16) -> Box<State<TU, TE>> {
        let mut s = state.clone();
        s.user_state.trace.push((self.id, count));
        Box::new(s)
    }
    fn lazy_rest(&self, pos: usize, count: u16, state: State<TU, TE>) -> LazyStream<TU, TE> {
        if self.dfs {
            LazyStream::pause_dfs(Box::new(state), DFSGoal::dynamic(Rc::new(self.at(pos, count))))
        } else {
            LazyStream::pause(Box::new(state), Goal::dynamic(Rc::new(self.at(pos, count))))
        }
    }
    fn stream_from(&self, pos: usize, count: u16, state: State<TU, TE>) -> Stream<TU, TE> {
        let sc = &self.script;
        let eager = self.enc == Enc::Delay;
        if pos < sc.items.len() {
            match sc.items[pos] {
                Item::A => {
                    let s2 = self.answer_state(&state, count);
                    let rest_is_end = pos + 1 == sc.items.len() && sc.tail == Tail::End;
                    if eager {
                        if rest_is_end {
                            Stream::cons(s2, LazyStream::delay(Stream::empty()))
                        } else if pos + 1 < sc.items.len() || sc.tail == Tail::End {
                            Stream::cons(s2, LazyStream::delay(self.stream_from(pos + 1, count + 1, state)))
                        } else {
                            Stream::cons(s2, self.lazy_rest(pos + 1, count + 1, state))
                        }
                    } else if rest_is_end {
                        Stream::unit(s2)
                    } else {
                        Stream::cons(s2, self.lazy_rest(pos + 1, count + 1, state))
                    }
                }
                Item::D => {
                    if eager && (pos + 1 < sc.items.len() || sc.tail == Tail::End) {
                        Stream::delay(self.stream_from(pos + 1, count, state))
                    } else {
                        Stream::lazy(self.lazy_rest(pos + 1, count, state))
                    }
                }
            }
        } else {
            match sc.tail {
                Tail::End => Stream::empty(),
                Tail::Diverge => Stream::lazy(self.lazy_rest(pos, count, state)),
                Tail::Forever => {
                    let s2 = self.answer_state(&state, count);
                    Stream::cons(s2, self.lazy_rest(pos, count + 1, state))
                }
            }
        }
    }
}

impl Solve<TU, TE> for Leaf {
    fn solve(&self, _solver: &Solver<TU, TE>, state: State<TU, TE>) -> Stream<TU, TE> {
        if self.enc == Enc::Iter {
            Stream::iterator(Box::new(ScriptIter { leaf: self.clone(), pos: self.pos, count: self.count, state }))
        } else {
            self.stream_from(self.pos, self.count, state)
        }
    }
}

#[derive(Clone)]
struct ScriptIter {
    leaf: Leaf,
    pos: usize,
    count: u16,
    state: State<TU, TE>,
}

impl StreamIterator<TU, TE> for ScriptIter {
    fn clone_box(&self) -> Box<dyn StreamIterator<TU, TE>> {
        Box::new(self.clone())
    }
    fn next(&mut self, _solver: &Solver<TU, TE>) -> Option<Stream<TU, TE>> {
        let sc = Rc::clone(&self.leaf.script);
        if self.pos < sc.items.len() {
            let it = sc.items[self.pos];
            self.pos += 1;
            match it {
                Item::A => {
                    let s2 = self.leaf.answer_state(&self.state, self.count);
                    self.count += 1;
                    Some(Stream::unit(s2))
                }
                Item::D => Some(Stream::empty()),
            }
        } else {
            match sc.tail {
                Tail::End => None,
                Tail::Diverge => Some(Stream::empty()),
                Tail::Forever => {
                    let s2 = self.leaf.answer_state(&self.state, self.count);
                    self.count += 1;
                    Some(Stream::unit(s2))
                }
            }
        }
    }
}

// ---------------------------------------------------------------------------------------------
// Goal trees

#[derive(Clone, PartialEq, Eq, Hash, Debug, PartialOrd, Ord)]
pub enum Tr {
    /// leaf index into the leaf table (script + encoding)
    Leaf(u16),
    Conj(Vec<Tr>),
    /// `conde` / `cond`: n-ary interleaving (BFS) or ordered (DFS) disjunction
    Conde(Vec<Tr>),
    /// binary `Disj` / `DFSDisj` chain
    Disj(Vec<Tr>),
    Fresh(Box<Tr>),
    Closure(Box<Tr>),
    /// `dfs { .. }` inside a BFS context
    Dfs(Box<Tr>),
    /// clauses (head, rest)
    Conda(Vec<(Tr, Tr)>),
    Condu(Vec<(Tr, Tr)>),
    Onceo(Box<Tr>),
    Anyo(Box<Tr>),
    Succeed,
    Fail,
}

impl fmt::Display for Tr {
    fn fmt(&self, f: &mut fmt::Formatter) -> fmt::Result {
        let list = |v: &Vec<Tr>| v.iter().map(|t| t.to_string()).collect::<Vec<_>>().join(", ");
        let clauses = |v: &Vec<(Tr, Tr)>| v.iter().map(|(h, r)| format!("[{}, {}]", h, r)).collect::<Vec<_>>().join(", ");
        match self {
            Tr::Leaf(i) => write!(f, "L{}", i),
            Tr::Conj(v) => write!(f, "[{}]", list(v)),
            Tr::Conde(v) => write!(f, "conde{{{}}}", list(v)),
            Tr::Disj(v) => write!(f, "disj{{{}}}", list(v)),
            Tr::Fresh(t) => write!(f, "fresh{{{}}}", t),
            Tr::Closure(t) => write!(f, "closure{{{}}}", t),
            Tr::Dfs(t) => write!(f, "dfs{{{}}}", t),
            Tr::Conda(c) => write!(f, "conda{{{}}}", clauses(c)),
            Tr::Condu(c) => write!(f, "condu{{{}}}", clauses(c)),
            Tr::Onceo(t) => write!(f, "onceo{{{}}}", t),
            Tr::Anyo(t) => write!(f, "loop{{{}}}", t),
            Tr::Succeed => write!(f, "true"),
            Tr::Fail => write!(f, "false"),
        }
    }
}

#[derive(Clone, PartialEq, Eq, Hash, Debug)]
pub struct Case {
    pub tree: Tr,
    pub leaves: Vec<(Script, Enc)>,
}

impl fmt::Display for Case {
    fn fmt(&self, f: &mut fmt::Formatter) -> fmt::Result {
        write!(f, "{} with ", self.tree)?;
        for (i, (s, e)) in self.leaves.iter().enumerate() {
            if i > 0 {
                write!(f, ", ")?;
            }
            write!(f, "L{}={}/{:?}", i, s, e)?;
        }
        Ok(())
    }
}

pub trait Kind: AnyGoal<TU, TE> {
    const DFS: bool;
    fn disj_vec(v: Vec<Self>) -> Self;
    fn conj_vec(v: Vec<Self>) -> Self;
}
impl Kind for Goal<TU, TE> {
    const DFS: bool = false;
    fn disj_vec(v: Vec<Self>) -> Self {
        Disj::from_vec(v)
    }
    fn conj_vec(v: Vec<Self>) -> Self {
        Conj::from_vec(v)
    }
}
impl Kind for DFSGoal<TU, TE> {
    const DFS: bool = true;
    fn disj_vec(v: Vec<Self>) -> Self {
        DFSDisj::from_vec(v)
    }
    fn conj_vec(v: Vec<Self>) -> Self {
        DFSConj::from_vec(v)
    }
}

/// `alt`: use the kind-specific binary constructors (Conj/DFSConj) instead of InferredConj.
pub fn build<K: Kind>(case: &Case, t: &Tr, alt: bool) -> K {
    match t {
        Tr::Leaf(i) => {
            let (s, e) = &case.leaves[*i as usize];
            K::dynamic(Rc::new(Leaf::new(*i, s.clone(), *e, K::DFS)))
        }
        Tr::Succeed => K::succeed(),
        Tr::Fail => K::fail(),
        Tr::Conj(v) => {
            let gs: Vec<K> = v.iter().map(|x| build::<K>(case, x, alt)).collect();
            if alt {
                K::conj_vec(gs)
            } else {
                InferredConj::from_vec(gs).cast_into()
            }
        }
        Tr::Conde(v) => {
            let gs: Vec<K> = v.iter().map(|x| build::<K>(case, x, alt)).collect();
            // all three public constructors: from_vec; in the alternative build from_array
            // (odd number of clauses) or from_conjunctions with one goal per clause (even)
            if !alt {
                Conde::from_vec(gs).cast_into()
            } else if gs.len() % 2 == 1 {
                Conde::from_array(&gs).cast_into()
            } else {
                let clauses: Vec<&[K]> = gs.iter().map(std::slice::from_ref).collect();
                Conde::from_conjunctions(&clauses).cast_into()
            }
        }
        Tr::Disj(v) => K::disj_vec(v.iter().map(|x| build::<K>(case, x, alt)).collect()),
        Tr::Fresh(x) => Fresh::new(vec![], build::<K>(case, x, alt)).cast_into(),
        Tr::Closure(x) => {
            let case2 = case.clone();
            let x2 = (**x).clone();
            Closure::new(ClosureOperatorParam::new(Box::new(move || build::<K>(&case2, &x2, alt)))).cast_into()
        }
        Tr::Dfs(x) => {
            let inner: DFSGoal<TU, TE> = build::<DFSGoal<TU, TE>>(case, x, alt);
            let arr = [inner];
            let refs: [&[DFSGoal<TU, TE>]; 1] = [&arr];
            proto_vulcan::operator::dfs::<TU, TE, K>(OperatorParam::new(&refs)).cast_into()
        }
        Tr::Conda(_) | Tr::Condu(_) | Tr::Onceo(_) | Tr::Anyo(_) => {
            let g: Goal<TU, TE> = build_bfs_only(case, t, alt);
            let any: Box<dyn std::any::Any> = Box::new(g);
            match any.downcast::<K>() {
                Ok(k) => *k,
                Err(_) => panic!("harness error: BFS-only operator in DFS typing"),
            }
        }
    }
}

fn body_clauses(case: &Case, x: &Tr, alt: bool) -> Vec<Vec<Goal<TU, TE>>> {
    match x {
        Tr::Conj(v) if alt => v.iter().map(|g| vec![build::<Goal<TU, TE>>(case, g, alt)]).collect(),
        Tr::Conj(v) => vec![v.iter().map(|g| build::<Goal<TU, TE>>(case, g, alt)).collect()],
        other => vec![vec![build::<Goal<TU, TE>>(case, other, alt)]],
    }
}

fn build_bfs_only(case: &Case, t: &Tr, alt: bool) -> Goal<TU, TE> {
    type Gl = Goal<TU, TE>;
    match t {
        Tr::Conda(cl) | Tr::Condu(cl) => {
            let arms: Vec<Vec<Gl>> = cl
                .iter()
                .map(|(h, r)| {
                    let mut v = vec![build::<Gl>(case, h, alt)];
                    match r {
                        Tr::Succeed => {}
                        // `[h, r1, r2]`: a clause is handed over as the flat list of its goals
                        Tr::Conj(rs) => v.extend(rs.iter().map(|x| build::<Gl>(case, x, alt))),
                        _ => v.push(build::<Gl>(case, r, alt)),
                    }
                    v
                })
                .collect();
            let refs: Vec<&[Gl]> = arms.iter().map(|a| a.as_slice()).collect();
            // the alternative build goes through the entry points the match macros use
            // (`matcha` / `matchu`: an arm is [pattern equality, body..], so the head plays the
            // pattern's part and an arm may have an empty body)
            match (matches!(t, Tr::Conda(_)), alt) {
                (true, false) => Conda::from_conjunctions(&refs),
                (false, false) => Condu::from_conjunctions(&refs),
                (true, true) => proto_vulcan::operator::matcha::matcha(PatternMatchOperatorParam::new(&refs)),
                (false, true) => proto_vulcan::operator::matchu::matchu(PatternMatchOperatorParam::new(&refs)),
            }
        }
        // a conjunction body is handed over the way the surface forms do: `op { [a, b] }` is one
        // clause of two goals, `op { a, b }` two clauses of one goal each (the alternative build)
        Tr::Onceo(x) => {
            let clauses = body_clauses(case, x, alt);
            let refs: Vec<&[Gl]> = clauses.iter().map(|c| c.as_slice()).collect();
            proto_vulcan::operator::onceo(OperatorParam::new(&refs))
        }
        Tr::Anyo(x) => {
            let clauses = body_clauses(case, x, alt);
            let refs: Vec<&[Gl]> = clauses.iter().map(|c| c.as_slice()).collect();
            proto_vulcan::operator::anyo(OperatorParam::new(&refs))
        }
        _ => unreachable!(),
    }
}

// ---------------------------------------------------------------------------------------------
// Reference semantics on traces

pub const INF_CUT: usize = 6;

/// Depth-first (Prolog order) answers of a tree from an input trace. Infinite producers are cut
/// after INF_CUT answers and `complete` is cleared; a silent diverger clears `complete` and ends
/// the enumeration at that point (nothing after it is reachable in depth-first order).
pub struct RefEval<'a> {
    pub case: &'a Case,
    pub complete: bool,
    pub fuel: usize,
}

impl<'a> RefEval<'a> {
    pub fn new(case: &'a Case) -> Self {
        RefEval { case, complete: true, fuel: 200_000 }
    }

    pub fn answers(&mut self, t: &Tr, input: &Trace) -> Vec<Trace> {
        if self.fuel == 0 {
            self.complete = false;
            return vec![];
        }
        self.fuel -= 1;
        match t {
            Tr::Succeed => vec![input.clone()],
            Tr::Fail => vec![],
            Tr::Leaf(i) => {
                let (s, _) = &self.case.leaves[*i as usize];
                let n = match s.answers() {
                    Some(n) => n,
                    None => {
                        self.complete = false;
                        INF_CUT
                    }
                };
                if s.tail == Tail::Diverge {
                    self.complete = false;
                }
                (0..n)
                    .map(|k| {
                        let mut tr = input.clone();
                        tr.push((*i, k as u16));
                        tr
                    })
                    .collect()
            }
            Tr::Conj(v) => {
                let mut cur = vec![input.clone()];
                for g in v {
                    let mut next = vec![];
                    for tr in &cur {
                        next.extend(self.answers(g, tr));
                    }
                    cur = next;
                }
                cur
            }
            Tr::Conde(v) | Tr::Disj(v) => {
                let mut out = vec![];
                for g in v {
                    out.extend(self.answers(g, input));
                }
                out
            }
            Tr::Fresh(x) | Tr::Closure(x) | Tr::Dfs(x) => self.answers(x, input),
            Tr::Conda(cl) => {
                for (h, r) in cl {
                    let hs = self.answers(h, input);
                    if !hs.is_empty() {
                        let mut out = vec![];
                        for tr in &hs {
                            out.extend(self.answers(r, tr));
                        }
                        return out;
                    }
                    if may_diverge(self.case, h) {
                        // a head that never answers and never ends: the soft cut never decides
                        self.complete = false;
                        return vec![];
                    }
                }
                vec![]
            }
            Tr::Condu(cl) => {
                for (h, r) in cl {
                    let hs = self.answers(h, input);
                    if let Some(first) = hs.first() {
                        return self.answers(r, first);
                    }
                    if may_diverge(self.case, h) {
                        self.complete = false;
                        return vec![];
                    }
                }
                vec![]
            }
            Tr::Onceo(x) => {
                let hs = self.answers(x, input);
                match hs.first() {
                    Some(f) => vec![f.clone()],
                    None => {
                        if may_diverge(self.case, x) {
                            self.complete = false;
                        }
                        vec![]
                    }
                }
            }
            Tr::Anyo(_) => {
                self.complete = false;
                vec![]
            }
        }
    }
}

/// Can the search of `t` run forever (one-sided: true may still end, e.g. after folding)?
pub fn may_diverge(case: &Case, t: &Tr) -> bool {
    match t {
        Tr::Succeed | Tr::Fail => false,
        Tr::Leaf(i) => case.leaves[*i as usize].0.tail != Tail::End,
        Tr::Conj(v) => {
            for g in v {
                if may_diverge(case, g) {
                    return true;
                }
                if !can_answer(case, g) {
                    return false;
                }
            }
            false
        }
        Tr::Conde(v) | Tr::Disj(v) => v.iter().any(|g| may_diverge(case, g)),
        Tr::Fresh(x) | Tr::Closure(x) | Tr::Dfs(x) => may_diverge(case, x),
        Tr::Onceo(x) => may_diverge(case, x) && !certainly_answers_first(case, x),
        Tr::Conda(cl) | Tr::Condu(cl) => cl.iter().any(|(h, r)| may_diverge(case, h) || may_diverge(case, r)),
        Tr::Anyo(_) => true,
    }
}

fn certainly_answers_first(case: &Case, t: &Tr) -> bool {
    // a leaf that produces an answer before any divergence point
    match t {
        Tr::Leaf(i) => {
            let s = &case.leaves[*i as usize].0;
            s.items.contains(&Item::A) || s.tail == Tail::Forever
        }
        Tr::Fresh(x) | Tr::Closure(x) | Tr::Dfs(x) => certainly_answers_first(case, x),
        _ => false,
    }
}

pub fn can_answer(case: &Case, t: &Tr) -> bool {
    match t {
        Tr::Succeed => true,
        Tr::Fail => false,
        Tr::Leaf(i) => case.leaves[*i as usize].0.has_answer(),
        Tr::Conj(v) => v.iter().all(|g| can_answer(case, g)),
        Tr::Conde(v) | Tr::Disj(v) => v.iter().any(|g| can_answer(case, g)),
        Tr::Fresh(x) | Tr::Closure(x) | Tr::Dfs(x) | Tr::Onceo(x) | Tr::Anyo(x) => can_answer(case, x),
        Tr::Conda(cl) | Tr::Condu(cl) => cl.iter().any(|(h, r)| can_answer(case, h) && can_answer(case, r)),
    }
}

/// Is `trace` (continuing `input`) an answer of `t`? Decided structurally, so it also works for
/// infinite producers. For committed choice it accepts any answer of the committed clause
/// (the exact committed answer is judged separately by the C08 oracle).
pub fn derivable(case: &Case, t: &Tr, rest: &[Entry]) -> Vec<usize> {
    // returns the possible numbers of entries consumed
    match t {
        Tr::Succeed => vec![0],
        Tr::Fail => vec![],
        Tr::Leaf(i) => match rest.first() {
            Some((id, k)) if id == i => {
                let s = &case.leaves[*i as usize].0;
                match s.answers() {
                    None => vec![1],
                    Some(n) if (*k as usize) < n => vec![1],
                    _ => vec![],
                }
            }
            _ => vec![],
        },
        Tr::Conj(v) => {
            let mut cur = vec![0usize];
            for g in v {
                let mut next = vec![];
                for c in &cur {
                    for d in derivable(case, g, &rest[*c..]) {
                        if !next.contains(&(c + d)) {
                            next.push(c + d);
                        }
                    }
                }
                cur = next;
            }
            cur
        }
        Tr::Conde(v) | Tr::Disj(v) => {
            let mut out = vec![];
            for g in v {
                for d in derivable(case, g, rest) {
                    if !out.contains(&d) {
                        out.push(d);
                    }
                }
            }
            out
        }
        Tr::Fresh(x) | Tr::Closure(x) | Tr::Dfs(x) | Tr::Onceo(x) | Tr::Anyo(x) => derivable(case, x, rest),
        Tr::Conda(cl) | Tr::Condu(cl) => {
            for (h, r) in cl {
                if can_answer(case, h) {
                    let both = Tr::Conj(vec![h.clone(), r.clone()]);
                    return derivable(case, &both, rest);
                }
            }
            vec![]
        }
    }
}

pub fn is_answer(case: &Case, trace: &Trace) -> bool {
    derivable(case, &case.tree, trace).contains(&trace.len())
}

// ---------------------------------------------------------------------------------------------
// Running

#[derive(Clone, Debug, PartialEq, Eq)]
pub enum Stop {
    Exhausted,
    Limit,
    Budget,
    Panic(String),
}

pub struct RunOut {
    pub answers: Vec<Trace>,
    /// engine steps (hook H2) at the moment each answer was returned
    pub steps_at: Vec<u64>,
    pub stop: Stop,
    pub steps: u64,
    pub fused_ok: bool,
}

/// Runs the case with `Solver::start` / `Solver::next` for at most `max_answers` answers and
/// `budget` engine steps.
pub fn run_case(case: &Case, top_dfs: bool, alt: bool, max_answers: usize, budget: u64) -> RunOut {
    use proto_vulcan::verif;
    verif::reset_steps();
    verif::set_budget(budget);
    let mut answers = vec![];
    let mut steps_at = vec![];
    let mut fused_ok = true;
    let r = crate::run::guarded(|| {
        let goal: Goal<TU, TE> = if top_dfs {
            let g: DFSGoal<TU, TE> = build::<DFSGoal<TU, TE>>(case, &case.tree, alt);
            g.cast_into()
        } else {
            build::<Goal<TU, TE>>(case, &case.tree, alt)
        };
        let mut solver: Solver<TU, TE> = Solver::new((), false);
        let mut stream = solver.start(&goal, State::new(TraceUser::default()));
        loop {
            if answers.len() >= max_answers {
                return Stop::Limit;
            }
            match solver.next(&mut stream) {
                Some(st) => {
                    answers.push(st.user_state.trace.clone());
                    steps_at.push(verif::steps());
                }
                None => {
                    for _ in 0..3 {
                        if solver.next(&mut stream).is_some() {
                            fused_ok = false;
                        }
                    }
                    return Stop::Exhausted;
                }
            }
        }
    });
    let steps = verif::steps();
    verif::set_budget(u64::MAX);
    let stop = match r {
        Ok(s) => s,
        Err(crate::run::End::Budget) => Stop::Budget,
        Err(crate::run::End::Panic(m)) => Stop::Panic(m),
        Err(_) => Stop::Budget,
    };
    RunOut { answers, steps_at, stop, steps, fused_ok }
}

/// Steps the engine one `Engine::step` at a time and, at every step, checks that the answers
/// emitted so far plus everything the current stream would still produce (drained on a clone)
/// equal the final multiset. Returns (states visited, transitions, error).
pub fn step_invariant(case: &Case, top_dfs: bool, expected_sorted: &[Trace], max_steps: usize) -> (u64, u64, Option<String>) {
    let r = crate::run::guarded(|| {
        let goal: Goal<TU, TE> = if top_dfs {
            let g: DFSGoal<TU, TE> = build::<DFSGoal<TU, TE>>(case, &case.tree, false);
            g.cast_into()
        } else {
            build::<Goal<TU, TE>>(case, &case.tree, false)
        };
        let solver: Solver<TU, TE> = Solver::new((), false);
        let mut stream = solver.start(&goal, State::new(TraceUser::default()));
        let mut emitted: Vec<Trace> = vec![];
        let mut states = 0u64;
        let mut transitions = 0u64;
        for _ in 0..max_steps {
            states += 1;
            // drain a clone with the library's own `next`
            let mut clone = stream.clone();
            let mut s2: Solver<TU, TE> = Solver::new((), false);
            let mut all = emitted.clone();
            let mut guard = 0;
            while let Some(st) = s2.next(&mut clone) {
                all.push(st.user_state.trace.clone());
                guard += 1;
                if guard > 10_000 {
                    return (states, transitions, Some("drain of a cloned stream did not end".to_string()));
                }
            }
            all.sort();
            if all != expected_sorted {
                return (
                    states,
                    transitions,
                    Some(format!("after {} steps: emitted + remaining = {:?}, expected {:?}", transitions, all, expected_sorted)),
                );
            }
            match std::mem::replace(&mut stream, Stream::Empty) {
                Stream::Empty => return (states, transitions, None),
                Stream::Unit(st) => {
                    emitted.push(st.user_state.trace.clone());
                    stream = Stream::Empty;
                }
                Stream::Cons(st, lazy) => {
                    emitted.push(st.user_state.trace.clone());
                    stream = Stream::Lazy(lazy);
                }
                Stream::Lazy(LazyStream(lazy)) => {
                    stream = solver.engine().step(&solver, *lazy);
                }
            }
            transitions += 1;
        }
        (states, transitions, None)
    });
    match r {
        Ok(x) => x,
        Err(crate::run::End::Panic(m)) => (0, 0, Some(format!("panic: {}", m))),
        Err(_) => (0, 0, Some("budget".into())),
    }
}

// ---------------------------------------------------------------------------------------------
// Enumeration helpers

/// All tree shapes with exactly `n` leaves (numbered left to right) over the given operators.
pub fn shapes(n: usize, ops: &[&str], first: u16) -> Vec<Tr> {
    if n == 1 {
        let leaf = Tr::Leaf(first);
        let mut out = vec![leaf.clone()];
        for op in ops {
            match *op {
                "fresh" => out.push(Tr::Fresh(Box::new(leaf.clone()))),
                "closure" => out.push(Tr::Closure(Box::new(leaf.clone()))),
                _ => {}
            }
        }
        return out;
    }
    let mut out = vec![];
    // binary splits and (for 3+) ternary flat nodes
    for k in 1..n {
        let ls = shapes(k, ops, first);
        let rs = shapes(n - k, ops, first + k as u16);
        for l in &ls {
            for r in &rs {
                for op in ops {
                    match *op {
                        "conj" => out.push(Tr::Conj(vec![l.clone(), r.clone()])),
                        "conde" => out.push(Tr::Conde(vec![l.clone(), r.clone()])),
                        "disj" => out.push(Tr::Disj(vec![l.clone(), r.clone()])),
                        _ => {}
                    }
                }
            }
        }
    }
    if n == 3 {
        let a = Tr::Leaf(first);
        let b = Tr::Leaf(first + 1);
        let c = Tr::Leaf(first + 2);
        for op in ops {
            match *op {
                "conj" => out.push(Tr::Conj(vec![a.clone(), b.clone(), c.clone()])),
                "conde" => out.push(Tr::Conde(vec![a.clone(), b.clone(), c.clone()])),
                "disj" => out.push(Tr::Disj(vec![a.clone(), b.clone(), c.clone()])),
                _ => {}
            }
        }
    }
    out
}

pub fn count_leaves(t: &Tr) -> usize {
    match t {
        Tr::Leaf(_) => 1,
        Tr::Succeed | Tr::Fail => 0,
        Tr::Conj(v) | Tr::Conde(v) | Tr::Disj(v) => v.iter().map(count_leaves).sum(),
        Tr::Fresh(x) | Tr::Closure(x) | Tr::Dfs(x) | Tr::Onceo(x) | Tr::Anyo(x) => count_leaves(x),
        Tr::Conda(c) | Tr::Condu(c) => c.iter().map(|(h, r)| count_leaves(h) + count_leaves(r)).sum(),
    }
}

/// All assignments of `choices` to `n` positions.
pub fn product<X: Clone>(choices: &[X], n: usize) -> Vec<Vec<X>> {
    let mut out: Vec<Vec<X>> = vec![vec![]];
    for _ in 0..n {
        let mut next = vec![];
        for p in &out {
            for c in choices {
                let mut q = p.clone();
                q.push(c.clone());
                next.push(q);
            }
        }
        out = next;
    }
    out
}
