//! C11: project sees the current value of projected variables in every branch.
//! E3: generators that reach a project goal with 1..4 states x bodies that read the projected
//! value relationally, structurally (fngoal) and after a delay x nestings.
use crate::ast::*;
use crate::conv::*;
use crate::ev::{Ctx, Violation};
use crate::pool::par_map;
use crate::refm::*;
use crate::run::{panic_site, run_query_with, End, DE, DU};
use proto_vulcan::lterm::LTerm;
use proto_vulcan::state::State;
use proto_vulcan::user::DefaultUser;
use serde_json::{json, Value};
use std::rc::Rc;

// variables: q = V0 (query), x = V1 (projected), y = V2

struct CaseP {
    program: Program,
    /// the same program with `project |x| { body }` replaced by `body` (valid for ground x)
    reference: Program,
    visits: usize,
    /// the project goal is built inside a closure body, i.e. anew for every state that enters
    /// the closure (as in every relation written as a function): reaching it repeatedly works
    /// on the pinned tree and is not the recorded finding
    rebuilt_per_visit: bool,
    /// the expected answers are those of the same program without `project`, run by the library
    /// itself (the projected variable is not ground here: unbound, or partially bound, possibly
    /// with finite-domain variables still to be labelled)
    differential: bool,
}

fn strip_project(g: &G) -> G {
    match g {
        G::Project(_, gs) => G::Conj(gs.iter().map(strip_project).collect()),
        G::Conj(gs) => G::Conj(gs.iter().map(strip_project).collect()),
        G::Conde(arms) => G::Conde(arms.iter().map(|a| a.iter().map(strip_project).collect()).collect()),
        G::Fresh(vs, gs) => G::Fresh(vs.clone(), gs.iter().map(strip_project).collect()),
        G::Closure(b) => G::Closure(Box::new(strip_project(b))),
        // the probe checks that x is a ground integer: true for every generator value
        G::Probe(_) => G::Succeed,
        other => other.clone(),
    }
}

fn cases() -> Vec<CaseP> {
    let q = T::V(0);
    let x = T::V(1);
    let y = T::V(2);
    // generators: (goal, number of states reaching what follows)
    let gens: Vec<(G, usize)> = vec![
        (G::Eq(x.clone(), T::I(1)), 1),
        (G::Conde(vec![vec![G::Eq(x.clone(), T::I(1))], vec![G::Eq(x.clone(), T::I(2))]]), 2),
        (G::Conde(vec![vec![G::Eq(x.clone(), T::I(1))], vec![G::Eq(x.clone(), T::I(2))], vec![G::Eq(x.clone(), T::I(3))]]), 3),
        (G::Conde(vec![vec![G::Eq(x.clone(), T::I(1))], vec![G::Conde(vec![vec![G::Eq(x.clone(), T::I(2))], vec![G::Eq(x.clone(), T::I(3))], vec![G::Eq(x.clone(), T::I(4))]])]]), 4),
        (G::Conj(vec![G::Eq(x.clone(), T::list(vec![y.clone(), T::I(7)])), G::Conde(vec![vec![G::Eq(y.clone(), T::I(1))], vec![G::Eq(y.clone(), T::I(2))]])]), 2),
        (G::Closure(Box::new(G::Conde(vec![vec![G::Eq(x.clone(), T::I(5))], vec![G::Eq(x.clone(), T::I(6))]]))), 2),
        (G::Disj(vec![G::Eq(x.clone(), T::I(1)), G::Eq(x.clone(), T::I(1))]), 2),
        // the projected variable aliased to another variable first, the value arriving later
        (G::Conj(vec![G::Eq(x.clone(), y.clone()), G::Eq(y.clone(), T::I(7))]), 1),
        (G::Conj(vec![G::Eq(y.clone(), x.clone()), G::Eq(T::V(5), y.clone()), G::Eq(T::V(5), T::I(3))]), 1),
        (G::Conj(vec![G::Eq(x.clone(), y.clone()), G::Eq(y.clone(), T::list(vec![T::V(5), T::I(2)])), G::Eq(T::V(5), T::I(1))]), 1),
        // a list whose head and tail are bound separately, after the list itself
        (G::Conj(vec![G::Eq(x.clone(), T::cons(y.clone(), T::V(5))), G::Conde(vec![vec![G::Eq(y.clone(), T::I(1))], vec![G::Eq(y.clone(), T::I(2))]]), G::Eq(T::V(5), T::list(vec![y.clone(), T::I(4)]))]), 2),
        (G::Conj(vec![G::Eq(x.clone(), T::list(vec![y.clone(), T::V(5)])), G::Eq(T::V(5), T::I(4)), G::Eq(y.clone(), T::I(3))]), 1),
    ];
    let bodies: Vec<Vec<G>> = vec![
        vec![G::Eq(q.clone(), x.clone())],
        vec![G::Eq(q.clone(), T::list(vec![x.clone(), x.clone()]))],
        vec![G::Probe(0), G::Eq(q.clone(), x.clone())],
        vec![G::Closure(Box::new(G::Eq(q.clone(), x.clone())))],
        vec![G::Conde(vec![vec![G::Eq(q.clone(), x.clone())], vec![G::Eq(q.clone(), T::list(vec![x.clone()]))]])],
        vec![G::Conde(vec![vec![G::Eq(T::V(3), T::I(8))], vec![G::Eq(T::V(3), T::I(9))]]), G::Closure(Box::new(G::Eq(q.clone(), T::list(vec![x.clone(), T::V(3)]))))],
        vec![G::Closure(Box::new(G::Closure(Box::new(G::Conde(vec![vec![G::Eq(q.clone(), x.clone())], vec![G::Fail]])))))],
    ];
    let mut out = vec![];
    for (g, visits) in &gens {
        for b in &bodies {
            let proj = G::Project(vec![1], b.clone());
            // nestings: directly after the generator; inside a fresh clause; inside a conde arm
            // next to an arm that fails; project first and generator inside (single visit)
            let forms: Vec<(Vec<G>, usize)> = vec![
                (vec![g.clone(), proj.clone()], *visits),
                (vec![g.clone(), G::Fresh(vec![4], vec![G::Eq(T::V(4), T::I(0)), proj.clone()])], *visits),
                (vec![g.clone(), G::Conde(vec![vec![proj.clone()], vec![G::Fail]])], *visits),
                (vec![G::Conde(vec![vec![g.clone(), proj.clone()], vec![G::Eq(x.clone(), T::I(0)), G::Eq(q.clone(), T::I(0))]])], *visits),
            ];
            for (body, v) in forms {
                let program = Program { nq: 2, body: body.clone() };
                let reference = Program { nq: 2, body: body.iter().map(strip_project).collect() };
                out.push(CaseP { program, reference, visits: v, rebuilt_per_visit: false, differential: false });
            }
            // the project goal behind a closure (one closure goal object entered by every state
            // of the generator), directly and below a fresh clause
            let forms2: Vec<Vec<G>> = vec![
                vec![g.clone(), G::Closure(Box::new(proj.clone()))],
                vec![g.clone(), G::Fresh(vec![4], vec![G::Closure(Box::new(G::Conj(vec![G::Eq(T::V(4), T::I(0)), proj.clone()])))])],
                vec![G::Closure(Box::new(G::Conj(vec![g.clone(), G::Closure(Box::new(proj.clone()))])))],
            ];
            for body in forms2 {
                let program = Program { nq: 2, body: body.clone() };
                let reference = Program { nq: 2, body: body.iter().map(strip_project).collect() };
                out.push(CaseP { program, reference, visits: *visits, rebuilt_per_visit: true, differential: false });
            }
        }
    }
    // the projected variable is not ground when the goal is reached: unbound, a list with an
    // unbound element, with and without finite-domain variables still to be labelled; reached
    // once (directly) and by two states (behind a closure)
    let open_gens: Vec<Vec<G>> = vec![
        vec![],
        vec![G::Eq(x.clone(), T::list(vec![y.clone(), T::I(5)]))],
        vec![G::InFd(vec![y.clone()], Dom::Range(1, 2))],
        vec![G::InFd(vec![y.clone()], Dom::Range(1, 2)), G::Eq(x.clone(), T::list(vec![y.clone()]))],
    ];
    let open_bodies: Vec<Vec<G>> = vec![
        vec![G::Eq(q.clone(), x.clone())],
        vec![G::Eq(q.clone(), T::list(vec![x.clone(), y.clone()]))],
        vec![G::Closure(Box::new(G::Eq(q.clone(), T::list(vec![x.clone()]))))],
        vec![G::Neq(q.clone(), x.clone())],
    ];
    for g in &open_gens {
        for b in &open_bodies {
            let proj = G::Project(vec![1], b.clone());
            let mut direct = g.clone();
            direct.push(proj.clone());
            let mut twice = g.clone();
            twice.push(G::Conde(vec![vec![G::Eq(T::V(5), T::I(1))], vec![G::Eq(T::V(5), T::I(2))]]));
            twice.push(G::Closure(Box::new(proj.clone())));
            for (body, visits, rebuilt) in [(direct, 1usize, false), (twice, 2usize, true)] {
                let program = Program { nq: 2, body: vec![G::Fresh(vec![2, 5], body.clone())] };
                let reference = Program { nq: 2, body: vec![G::Fresh(vec![2, 5], body.iter().map(strip_project).collect())] };
                out.push(CaseP { program, reference, visits, rebuilt_per_visit: rebuilt, differential: true });
            }
        }
    }
    out
}

fn check(c: &CaseP, index: usize) -> (Vec<Violation>, &'static str) {
    crate::ev::progress("c11", index, &Value::Null);
    let sig = c.program.to_string();
    let mk = |kind: &str, detail: String, site: String| Violation { kind: kind.into(), sig: sig.clone(), site, detail, family: "c11".into(), index, schedule: vec![], data: Value::Null };
    let nvars = crate::run::nvars_of(2, &c.program.body).max(6);
    // probe 0: the projected x (variable index 1 in the body's environment) is a ground integer
    let probe: ProbeFn<DU, DE> = Rc::new(|env: &Env<DU, DE>, st: State<DU, DE>| {
        let x: &LTerm<DU, DE> = &env.vars[1];
        // the projected value is fully walked: a number, or a list of numbers
        if x.is_number() || (x.is_list() && x.iter().all(|e| e.is_number())) {
            Some(st)
        } else {
            None
        }
    });
    let out = run_query_with::<DU, DE>(nvars, &c.program, DefaultUser::new(), (), 100, 200_000, vec![probe]);
    let mut viols = vec![];
    // reference answers
    let mut next = nvars as u32 + 10;
    let qv: Vec<T> = vec![T::V(0), T::V(1)];
    let mut expected: Vec<Vec<T>> = vec![];
    for path in paths(&c.reference.body, &mut next) {
        if let Some(s) = solve_path(&path) {
            expected.push(canon_tuple(&qv.iter().map(|t| s.sigma.apply(t)).collect::<Vec<_>>()));
        }
    }
    if c.differential {
        let r = run_query_with::<DU, DE>(nvars, &c.reference, DefaultUser::new(), (), 100, 200_000, vec![]);
        expected = r.answers.iter().map(|a| a.terms.clone()).collect();
    }
    expected.sort();
    let class = if c.visits >= 2 && c.rebuilt_per_visit {
        "project-in-closure-reached-2plus-times"
    } else if c.visits >= 2 {
        "project-reached-2plus-times"
    } else {
        "project-reached-once"
    };
    match &out.end {
        End::Panic(m) => {
            let revisit = c.visits >= 2 && !c.rebuilt_per_visit && m.contains("Cannot project non-Projection");
            viols.push(mk(if revisit { "project-revisit-panic" } else { "panic" }, format!("{} (the project goal is reached by {} state(s))", m, c.visits), panic_site(m)));
        }
        End::Exhausted => {
            let mut got: Vec<Vec<T>> = out.answers.iter().map(|a| a.terms.clone()).collect();
            got.sort();
            if got != expected {
                let show = |v: &Vec<Vec<T>>| v.iter().map(|t| format!("({})", t.iter().map(|x| x.to_string()).collect::<Vec<_>>().join(", "))).collect::<Vec<_>>().join(" ");
                viols.push(mk(if c.visits >= 2 { "project-stale-value" } else { "wrong-answers" }, format!("answers (q, x): {}; with the body in place of project: {}", show(&got), show(&expected)), String::new()));
            }
        }
        other => viols.push(mk("no-termination", format!("{:?}", other), String::new())),
    }
    (viols, class)
}

pub fn run(ctx: &mut Ctx) {
    ctx.set("rule", json!("E3: 12 generators that reach the project goal with 1..4 states (bindings, conde of 2-4 arms, nested conde, a partially bound list completed per branch, a generator behind a closure, a binary Disj reaching it twice with the same value, the projected variable aliased to another variable whose value arrives later - directly, through a chain, as a list; lists whose head / elements and tail are bound separately afterwards) x 7 bodies (q == x; q == [x, x]; an fngoal that inspects the projected term structurally; the read delayed behind a closure; a conde of reads; a branching body whose read is delayed; doubly delayed) x 7 nestings, plus 4 generators that leave the projected variable unbound or partially bound (with finite-domain variables still to be labelled) x 4 bodies reached once and twice, judged against the same program without project run by the library (directly after the generator, below a fresh clause, in a conde arm next to a failing arm, generator and project inside one arm; and with the project goal behind a closure - the form every relation written as a function has - directly, below fresh, and with the generator inside an outer closure: there the goal is rebuilt for every entering state, so every one of the 2..4 states must see its own value). Oracle: for ground values `project |x| { body }` has the answers of `body`; no panic. distinct_nontrivial = cases whose project goal is reached by >= 2 states."));
    let cs = cases();
    let sel: Vec<usize> = match &ctx.replay {
        Some(r) if r.family == "c11" => vec![r.index],
        Some(_) => vec![],
        None => (0..cs.len()).collect(),
    };
    let res = par_map(&sel, |_, i| check(&cs[*i], *i));
    let mut nt = 0u64;
    for (vs, class) in res {
        ctx.hist(class, 1);
        if class != "project-reached-once" {
            nt += 1;
        }
        for v in vs {
            ctx.violation(v);
        }
    }
    for c in cs.iter().step_by((cs.len() / 4).max(1)).take(4) {
        ctx.sample(json!({"program": c.program.to_string(), "project_reached_by_states": c.visits}));
    }
    ctx.set("evaluations", json!(sel.len()));
    ctx.set("programs", json!(sel.len()));
    ctx.set("states", json!(sel.len()));
    ctx.set("transitions", json!(sel.len()));
    ctx.set("traces_validated_against_impl", json!(sel.len()));
    ctx.set("distinct_nontrivial", json!(nt));
    if ctx.replay.is_none() {
        ctx.require_nonzero("project-reached-2plus-times");
        ctx.require_nonzero("project-reached-once");
        ctx.require_nonzero("project-in-closure-reached-2plus-times");
    }
    ctx.assume("project goals are built as the macro builds them: the projected names are rebound to Projection terms once, when the goal is constructed (the surface form is exercised by C14)");
}
