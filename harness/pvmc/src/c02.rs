//! C02: disequality constraints are sound, complete and order-free.
//!  E1: BFS over constraint states (substitution + disequality store) under `==` / `!=` actions,
//!      lock-step with an order-free model (the set of posted equations/disequations), compared
//!      by denotation over a finite universe (R2).
//!  E2: every distinct state's history re-run as a public query under all hash-order schedules
//!      with <= d deviations.
//!  E3: bounded-exhaustive programs with conde and fresh (hidden variables).
use crate::ast::*;
use crate::conv::*;
use crate::den::{observe_state, state_key, Den};
use crate::ev::{Ctx, Violation};
use crate::pool::par_map;
use crate::refm::*;
use crate::run::{guarded, panic_site, run_query, End, Outcome, DE, DU};
use crate::sched;
use proto_vulcan::lterm::LTerm;
use proto_vulcan::state::State;
use proto_vulcan::user::DefaultUser;
use serde_json::{json, Value};
use std::cell::RefCell;
use std::collections::{BTreeMap, HashMap};

const NV: usize = 3;

#[derive(Clone, Copy, PartialEq, Eq, Debug)]
pub enum Op {
    Eq,
    Neq,
}

pub fn term_alphabet_wide() -> Vec<T> {
    term_alphabet_inner(false)
}

pub fn term_alphabet(_quick: bool) -> Vec<T> {
    term_alphabet_inner(true)
}

fn term_alphabet_inner(quick: bool) -> Vec<T> {
    let x = T::V(0);
    let y = T::V(1);
    let z = T::V(2);
    let base: Vec<T> = vec![x.clone(), y.clone(), z.clone(), T::I(5), T::I(6)];
    let mut u = base.clone();
    let pairs: Vec<T> = if quick {
        vec![x.clone(), y.clone(), T::I(5), T::I(6)]
    } else {
        base.clone()
    };
    for a in &pairs {
        for b in &pairs {
            u.push(T::list(vec![a.clone(), b.clone()]));
        }
    }
    if !quick {
        u.push(T::cons(x.clone(), y.clone()));
        u.push(T::cons(T::I(5), z.clone()));
        u.push(T::Nil);
    }
    u
}

fn action_text(u: &[T], a: usize) -> String {
    let n = u.len();
    let (op, i, j) = (a / (n * n), (a / n) % n, a % n);
    format!("{} {} {}", u[i], if op == 0 { "==" } else { "!=" }, u[j])
}

fn history_goals(u: &[T], hist: &[usize]) -> Vec<G> {
    let n = u.len();
    hist.iter()
        .map(|a| {
            let (op, i, j) = (a / (n * n), (a / n) % n, a % n);
            if op == 0 {
                G::Eq(u[i].clone(), u[j].clone())
            } else {
                G::Neq(u[i].clone(), u[j].clone())
            }
        })
        .collect()
}

fn model_of(goals: &[G]) -> Option<AnsSet> {
    let mut p = Path::default();
    for g in goals {
        match g {
            G::Eq(a, b) => p.eqs.push((a.clone(), b.clone())),
            G::Neq(a, b) => p.neqs.push((a.clone(), b.clone())),
            _ => unreachable!(),
        }
    }
    let q: Vec<T> = (0..NV as u32).map(T::V).collect();
    solve_path(&p).map(|s| AnsSet::from_solved(&q, &s))
}

thread_local! {
    static CACHE: RefCell<Option<(usize, Env<DU, DE>, Vec<LTerm<DU, DE>>)>> = RefCell::new(None);
}

type SKey = (Vec<Option<T>>, Vec<Vec<(T, T)>>);

#[derive(Default)]
struct Local {
    viols: Vec<Violation>,
    hist: BTreeMap<String, u64>,
    transitions: u64,
    succ: Vec<(usize, SKey)>,
}

fn apply(st: State<DU, DE>, terms: &[LTerm<DU, DE>], n: usize, a: usize) -> Result<Result<State<DU, DE>, ()>, End> {
    let (op, i, j) = (a / (n * n), (a / n) % n, a % n);
    guarded(|| if op == 0 { st.unify(&terms[i], &terms[j]) } else { st.disunify(&terms[i], &terms[j]) })
}

fn expand(den: &Den, u: &[T], hist: &[usize], index: usize, wide: bool) -> Local {
    let mut l = Local::default();
    let n = u.len();
    let data = json!({"history": hist, "wide": wide});
    crate::ev::progress("c02-e1", index, &data);
    let mk = |kind: &str, sig: String, detail: String, site: String| Violation {
        kind: kind.into(),
        sig,
        site,
        detail,
        family: "c02-e1".into(),
        index,
        schedule: vec![],
        data: data.clone(),
    };
    let token = u.as_ptr() as usize;
    CACHE.with(|c| {
        let mut c = c.borrow_mut();
        if c.as_ref().map(|x| x.0) != Some(token) {
            let env: Env<DU, DE> = Env::new(NV);
            let terms: Vec<LTerm<DU, DE>> = u.iter().map(|t| env.enc(t)).collect();
            *c = Some((token, env, terms));
        }
        let (_, env, terms) = c.as_ref().unwrap();
        let mut st: State<DU, DE> = State::new(DefaultUser::new());
        for a in hist {
            match apply(st, terms, n, *a) {
                Ok(Ok(s)) => st = s,
                _ => {
                    l.viols.push(mk("replay-diverged", history_goals(u, hist).iter().map(|g| g.to_string()).collect::<Vec<_>>().join(", "), "history no longer replays".into(), String::new()));
                    return;
                }
            }
        }
        let pre_goals = history_goals(u, hist);
        let pre_key = state_key(env, &st);
        for a in 0..2 * n * n {
            l.transitions += 1;
            let mut goals = pre_goals.clone();
            goals.extend(history_goals(u, &[a]));
            let sig = goals.iter().map(|g| g.to_string()).collect::<Vec<_>>().join(", ");
            let model = model_of(&goals);
            let res = apply(st.clone(), terms, n, a);
            if state_key(env, &st) != pre_key {
                l.viols.push(mk("prestate-mutated", sig.clone(), "the state the action started from changed".into(), String::new()));
            }
            match res {
                Err(End::Panic(m)) => {
                    let site = panic_site(&m);
                    l.viols.push(mk("panic", sig, m, site));
                }
                Err(_) => {}
                Ok(Err(())) => match &model {
                    None => *l.hist.entry("fails-as-model".into()).or_insert(0) += 1,
                    Some(ms) => {
                        let mb = den.bits(ms);
                        if bits_count(&mb) > 0 {
                            let w = first_diff(&mb, &den.empty()).unwrap();
                            l.viols.push(mk("incomplete", sig, format!("the goal fails but {} is a solution", den.show_tuple(w)), String::new()));
                        }
                    }
                },
                Ok(Ok(post)) => {
                    let (obs, _) = observe_state(env, &post, NV);
                    let ob = den.bits(&obs);
                    let mb = match &model {
                        Some(ms) => den.bits(ms),
                        None => std::sync::Arc::new(den.empty()),
                    };
                    if let Some(w) = first_diff(&ob, &mb) {
                        let in_impl = ob[w / 64] >> (w % 64) & 1 == 1;
                        let kind = if in_impl { "unsound" } else { "incomplete" };
                        l.viols.push(mk(
                            kind,
                            sig,
                            format!(
                                "state denotes {} instances, model {}; {} is {} — state: {:?} where {:?}",
                                bits_count(&ob),
                                bits_count(&mb),
                                den.show_tuple(w),
                                if in_impl { "admitted by the state but not a solution" } else { "a solution the state excludes" },
                                obs.tuple.iter().map(|t| t.to_string()).collect::<Vec<_>>(),
                                obs.neqs
                            ),
                            String::new(),
                        ));
                        continue;
                    }
                    *l.hist.entry(if a >= n * n { "neq-ok".into() } else { "eq-ok".into() }).or_insert(0) += 1;
                    if !obs.neqs.is_empty() {
                        *l.hist.entry("state-with-constraints".into()).or_insert(0) += 1;
                    }
                    if obs.neqs.iter().any(|d| d.len() > 1) {
                        *l.hist.entry("state-with-multi-binding-constraint".into()).or_insert(0) += 1;
                    }
                    l.succ.push((a, state_key(env, &post)));
                }
            }
        }
    });
    l
}

/// Runs a history as a public query and returns its denotation (union over answers) + answers.
fn query_bits(den: &Den, p: &Program, nvars: usize) -> (Vec<u64>, Outcome) {
    let out = run_query(nvars, p, 64, 200_000);
    let mut bits = den.empty();
    for a in &out.answers {
        let s = ansset_of_observed(&a.terms, &a.cons);
        bits_or(&mut bits, &den.bits(&s));
    }
    (bits, out)
}

const SITES: [&str; 6] = ["run_constraints", "diseq_run", "diseq_subsumes", "normalize", "with_cstore", "diseq_walk_star"];

/// Query-level + E2 check of one history.
fn check_history_query(den: &Den, u: &[T], hist: &[usize], index: usize, d: usize) -> (Vec<Violation>, u64, u64) {
    let goals = history_goals(u, hist);
    let p = Program { nq: NV as u32, body: goals.clone() };
    let data = json!({"history": hist});
    crate::ev::progress("c02-e2", index, &data);
    let sig = p.to_string();
    let model = model_of(&goals);
    let mb: Vec<u64> = match &model {
        Some(ms) => den.bits(ms).as_ref().clone(),
        None => den.empty(),
    };
    let mut viols = vec![];
    let f = || {
        let (bits, out) = query_bits(den, &p, NV);
        (bits, out.end.clone(), out.answers.iter().map(|a| a.to_string()).collect::<Vec<_>>())
    };
    let ex = sched::explore(&SITES, d, 20_000, &f);
    if let Some(e) = &ex.error {
        viols.push(Violation { kind: "machinery".into(), sig: sig.clone(), site: String::new(), detail: e.clone(), family: "c02-e2".into(), index, schedule: vec![], data: data.clone() });
    }
    for (schedule, (bits, end, answers)) in &ex.outcomes {
        let sch: Vec<usize> = schedule.clone();
        match end {
            End::Panic(m) => viols.push(Violation { kind: "panic".into(), sig: sig.clone(), site: panic_site(m), detail: m.clone(), family: "c02-e2".into(), index, schedule: sch, data: data.clone() }),
            End::Exhausted => {
                if let Some(w) = first_diff(bits, &mb) {
                    let in_impl = bits[w / 64] >> (w % 64) & 1 == 1;
                    viols.push(Violation {
                        kind: if in_impl { "unsound-answer".into() } else { "missing-solution".into() },
                        sig: sig.clone(),
                        site: String::new(),
                        detail: format!(
                            "answers {:?} under schedule {:?}: {} is {}",
                            answers,
                            schedule,
                            den.show_tuple(w),
                            if in_impl { "an instance of an answer but not a solution" } else { "a solution covered by no answer" }
                        ),
                        family: "c02-e2".into(),
                        index,
                        schedule: sch,
                        data: data.clone(),
                    });
                }
            }
            other => viols.push(Violation { kind: "no-termination".into(), sig: sig.clone(), site: String::new(), detail: format!("{:?}", other), family: "c02-e2".into(), index, schedule: sch, data: data.clone() }),
        }
    }
    (viols, ex.schedules, ex.max_points as u64)
}

// ---------------------------------------------------------------------------------------------
// E3: programs with conde and fresh (hidden variables)

pub fn e3_programs(quick: bool) -> Vec<Program> {
    // query variables x (0), y (1); hidden h (2); atoms 5, 6
    let x = T::V(0);
    let y = T::V(1);
    let h = T::V(2);
    let terms: Vec<T> = vec![
        x.clone(),
        y.clone(),
        T::I(5),
        T::I(6),
        T::list(vec![x.clone(), y.clone()]),
        T::list(vec![T::I(5), T::I(6)]),
    ];
    let hterms: Vec<T> = vec![h.clone(), T::list(vec![h.clone(), T::I(5)]), T::list(vec![x.clone(), h.clone()])];
    // literals over visible terms
    let mut lits: Vec<G> = vec![];
    for (i, a) in terms.iter().enumerate() {
        for (j, b) in terms.iter().enumerate() {
            if i < j {
                lits.push(G::Eq(a.clone(), b.clone()));
                lits.push(G::Neq(a.clone(), b.clone()));
            }
        }
    }
    // literals involving the hidden variable
    let mut hlits: Vec<G> = vec![];
    for a in &hterms {
        for b in terms.iter().take(4).chain(hterms.iter()) {
            if a != b {
                hlits.push(G::Eq(a.clone(), b.clone()));
                hlits.push(G::Neq(a.clone(), b.clone()));
            }
        }
    }
    let lits_small: Vec<G> = if quick { lits.iter().step_by(3).cloned().collect() } else { lits.clone() };
    let hl_small: Vec<G> = if quick { hlits.iter().step_by(3).cloned().collect() } else { hlits.clone() };
    let mut out = vec![];
    // shape 1: lit, conde { lit, lit }
    for a in &lits_small {
        for b in &lits_small {
            for c in &lits_small {
                if b < c {
                    out.push(Program { nq: 2, body: vec![a.clone(), G::Conde(vec![vec![b.clone()], vec![c.clone()]])] });
                    out.push(Program { nq: 2, body: vec![G::Conde(vec![vec![b.clone()], vec![c.clone()]]), a.clone()] });
                }
            }
        }
    }
    // shape 2: lit, |h| { hlit, hlit }, and hidden literal before/after a visible one
    for a in &lits_small {
        for b in &hl_small {
            for c in &hl_small {
                if b < c {
                    out.push(Program { nq: 2, body: vec![a.clone(), G::Fresh(vec![2], vec![b.clone(), c.clone()])] });
                    out.push(Program { nq: 2, body: vec![G::Fresh(vec![2], vec![b.clone(), a.clone(), c.clone()])] });
                }
            }
        }
    }
    // shape 3: conde with a fresh inside one arm
    for a in lits_small.iter().step_by(2) {
        for b in hl_small.iter().step_by(2) {
            for c in lits_small.iter().step_by(2) {
                out.push(Program {
                    nq: 2,
                    body: vec![G::Conde(vec![vec![a.clone(), G::Fresh(vec![2], vec![b.clone()])], vec![c.clone()]])],
                });
            }
        }
    }
    out
}

fn ref_bits(den: &Den, p: &Program) -> Vec<u64> {
    let mut next = crate::run::nvars_of(p.nq, &p.body) as u32;
    let q: Vec<T> = (0..p.nq).map(T::V).collect();
    let mut bits = den.empty();
    for path in paths(&p.body, &mut next) {
        if let Some(s) = solve_path(&path) {
            bits_or(&mut bits, &den.bits(&AnsSet::from_solved(&q, &s)));
        }
    }
    bits
}

fn check_e3(den: &Den, p: &Program, index: usize, d: usize) -> (Vec<Violation>, u64) {
    crate::ev::progress("c02-e3", index, &Value::Null);
    let nvars = crate::run::nvars_of(p.nq, &p.body);
    let rb = ref_bits(den, p);
    let sig = p.to_string();
    let mut viols = vec![];
    let f = || {
        let (bits, out) = query_bits(den, p, nvars);
        (bits, out.end.clone(), out.answers.iter().map(|a| a.to_string()).collect::<Vec<_>>())
    };
    let ex = sched::explore(&SITES, d, 5_000, &f);
    for (schedule, (bits, end, answers)) in &ex.outcomes {
        let mk = |kind: &str, detail: String, site: String| Violation { kind: kind.into(), sig: sig.clone(), site, detail, family: "c02-e3".into(), index, schedule: schedule.clone(), data: Value::Null };
        match end {
            End::Panic(m) => viols.push(mk("panic", m.clone(), panic_site(m))),
            End::Exhausted => {
                if let Some(w) = first_diff(bits, &rb) {
                    let in_impl = bits[w / 64] >> (w % 64) & 1 == 1;
                    viols.push(mk(
                        if in_impl { "unsound-answer" } else { "missing-solution" },
                        format!("answers {:?} (schedule {:?}): {} is {}", answers, schedule, den.show_tuple(w), if in_impl { "an instance of an answer but not a solution" } else { "a solution covered by no answer" }),
                        String::new(),
                    ));
                }
            }
            other => viols.push(mk("no-termination", format!("{:?}", other), String::new())),
        }
    }
    (viols, ex.schedules)
}

pub fn universe3() -> Universe {
    let atoms = vec![T::I(5), T::I(6), T::S("#0".into()), T::S("#1".into())];
    let mut u = Universe::new(&atoms, &[], false, NV);
    let few = vec![T::I(5), T::I(6), T::S("#0".into())];
    for a in &few {
        for b in &few {
            u.values.push(T::list(vec![a.clone(), b.clone()]));
        }
    }
    u.values.push(T::cons(T::I(5), T::I(6)));
    u.values.sort();
    u.values.dedup();
    u
}

pub fn universe2() -> Universe {
    let atoms = vec![T::I(5), T::I(6), T::S("#0".into()), T::S("#1".into()), T::S("#2".into())];
    Universe::new(&atoms, &[], true, 2)
}

pub fn run(ctx: &mut Ctx) {
    let quick = ctx.quick();
    let u = term_alphabet(quick);
    let n = u.len();
    let depth = if quick { 2 } else { 3 };
    let d = if quick { 1 } else { 2 };
    let den = Den::new(universe3());
    ctx.set("rule", json!("E1: BFS over constraint states (exact key: bindings + stored disequalities) under every `t1 == t2` / `t1 != t2` action of the alphabet; the model is the order-free set of posted goals; implementation state and model are compared by their ground instances over a finite universe on every transition. E2: each distinct state's history is re-run as a public query under every schedule of the hash-ordered iterations with <= d deviations plus all-reversed. E3: programs with conde and fresh (hidden variables), union of answer instances vs reference paths. distinct_nontrivial = distinct constraint states + E3 programs."));
    ctx.set("alphabet_terms", json!(n));
    ctx.set("actions_per_state", json!(2 * n * n));
    ctx.set("depth", json!(depth));
    ctx.set("deviation_bound", json!(d));
    ctx.set("universe_values", json!(den.u.values.len()));

    // ---- E1
    let mut histories: Vec<Vec<usize>> = vec![];
    let mut transitions = 0u64;
    let mut levels = vec![];
    if let Some(r) = ctx.replay.clone() {
        let hist: Vec<usize> = r.data["history"].as_array().map(|a| a.iter().filter_map(|x| x.as_u64().map(|n| n as usize)).collect()).unwrap_or_default();
        if r.family == "c02-e1" {
            let wide = r.data["wide"].as_bool().unwrap_or(false);
            let ua = if wide { term_alphabet_wide() } else { u.clone() };
            let l = crate::pool::on_big_stack(|| expand(&den, &ua, &hist, r.index, wide));
            for v in l.viols {
                ctx.violation(v);
            }
        } else if r.family == "c02-e2" {
            let (vs, _, _) = crate::pool::on_big_stack(|| check_history_query(&den, &u, &hist, r.index, d));
            for v in vs {
                ctx.violation(v);
            }
        } else if r.family == "c02-e3" {
            let progs = e3_programs(quick);
            let den2 = Den::new(universe2());
            if let Some(p) = progs.get(r.index) {
                let (vs, _) = crate::pool::on_big_stack(|| check_e3(&den2, p, r.index, d));
                for v in vs {
                    ctx.violation(v);
                }
            }
        }
        return;
    }
    let t0 = std::time::Instant::now();
    let mut seen: HashMap<SKey, ()> = HashMap::new();
    let run_e1 = |ctx: &mut Ctx, u: &Vec<T>, depth: usize, histories: &mut Vec<Vec<usize>>, levels: &mut Vec<(usize, usize)>, transitions: &mut u64| {
        let mut seen_local: HashMap<SKey, ()> = HashMap::new();
        seen_local.insert((vec![None; NV], vec![]), ());
        let mut frontier: Vec<Vec<usize>> = vec![vec![]];
        histories.push(vec![]);
        for level in 0..depth {
            let base = histories.len();
            let wide = u.len() != n;
            let results: Vec<Local> = par_map(&frontier, |i, h| expand(&den, u, h, base + i, wide));
            let mut next = vec![];
            for (h, l) in frontier.iter().zip(results.into_iter()) {
                *transitions += l.transitions;
                for (k, c) in l.hist {
                    ctx.hist(&k, c);
                }
                for v in l.viols {
                    ctx.violation(v);
                }
                for (a, key) in l.succ {
                    if !seen_local.contains_key(&key) {
                        seen_local.insert(key, ());
                        let mut nh = h.clone();
                        nh.push(a);
                        next.push(nh);
                    }
                }
            }
            levels.push((level + 1, next.len()));
            histories.extend(next.iter().cloned());
            frontier = next;
        }
        seen_local
    };
    seen.extend(run_e1(ctx, &u, depth, &mut histories, &mut levels, &mut transitions));
    let mut wide_states = 0usize;
    if !quick {
        // second exploration: the wide alphabet (improper lists, [], z inside lists) to depth 2
        let wide = term_alphabet_wide();
        let mut h2 = vec![];
        let mut l2 = vec![];
        let s2 = run_e1(ctx, &wide, 2, &mut h2, &mut l2, &mut transitions);
        wide_states = s2.len();
        ctx.set("wide_alphabet", json!({"terms": wide.len(), "depth": 2, "states": s2.len(), "states_per_level": l2}));
    }
    let t_e1 = t0.elapsed().as_secs_f64();
    // ---- E2 on every distinct state's history (query level)
    let e2_hist: Vec<Vec<usize>> = if quick {
        // quick: all states of levels 0..1 and every 4th state of the last level
        let cut = 1 + levels.first().map(|l| l.1).unwrap_or(0);
        histories.iter().enumerate().filter(|(i, _)| *i < cut || i % 4 == 0).map(|(_, h)| h.clone()).collect()
    } else {
        histories.iter().filter(|h| h.len() < depth).cloned().chain(histories.iter().filter(|h| h.len() == depth).step_by(8).cloned()).collect()
    };
    if e2_hist.len() < histories.len() {
        ctx.set("e2_histories_subsampled", json!(format!("{} of {} distinct states' histories re-run at query level (all states below the last level, a fixed stride of the last level)", e2_hist.len(), histories.len())));
    }
    let res = par_map(&e2_hist, |i, h| check_history_query(&den, &u, h, i, d));
    let mut schedules = 0u64;
    let mut max_points = 0u64;
    for (vs, s, mp) in res {
        schedules += s;
        max_points = max_points.max(mp);
        for v in vs {
            if v.kind == "machinery" {
                ctx.machinery_errors.push(v.detail.clone());
            } else {
                ctx.violation(v);
            }
        }
    }
    let t_e2 = t0.elapsed().as_secs_f64() - t_e1;
    // ---- E3
    let progs = e3_programs(quick);
    let den2 = Den::new(universe2());
    let res = par_map(&progs, |i, p| check_e3(&den2, p, i, d.min(1)));
    let mut e3_sched = 0u64;
    for (vs, s) in res {
        e3_sched += s;
        for v in vs {
            ctx.violation(v);
        }
    }
    ctx.set("phase_seconds", json!({"e1": t_e1, "e2": t_e2, "e3": t0.elapsed().as_secs_f64() - t_e1 - t_e2}));
    let states = (seen.len() + wide_states) as u64;
    ctx.set("states", json!(states));
    ctx.set("transitions", json!(transitions));
    ctx.set("states_per_level", json!(levels));
    ctx.set("schedules", json!(schedules + e3_sched));
    ctx.set("max_choice_points", json!(max_points));
    ctx.set("e3_programs", json!(progs.len()));
    ctx.set("traces_validated_against_impl", json!(transitions + schedules + e3_sched));
    ctx.set("evaluations", json!(transitions + schedules + e3_sched));
    ctx.set("distinct_nontrivial", json!(states + progs.len() as u64));
    ctx.set("distinct_denotations_tabulated", json!(den.distinct_cached() + den2.distinct_cached()));
    ctx.set("max_depth", json!(depth));
    for h in histories.iter().rev().take(3) {
        ctx.sample(json!({"history": h.iter().map(|a| action_text(&u, *a)).collect::<Vec<_>>()}));
    }
    for p in progs.iter().step_by((progs.len() / 4).max(1)).take(4) {
        ctx.sample(json!({"e3_program": p.to_string()}));
    }
    for k in ["eq-ok", "neq-ok", "fails-as-model", "state-with-constraints", "state-with-multi-binding-constraint"] {
        ctx.require_nonzero(k);
    }
    ctx.assume("instances are tabulated over a finite universe (program constants, fresh atoms, short lists); a too-small universe can only miss a difference, never invent one");
    ctx.assume("independence of negative constraints: a disequality whose sides can only be made equal by binding an existential variable is satisfiable");
}
