//! E5: surface-syntax program families (C13 pattern matching, C14 translation of the clause
//! grammar, C15 fresh-variable scoping), their printer to macro syntax and the generator of the
//! Rust source that the `pvmc-surface` crate compiles against the current macros.
use crate::ast::*;
use std::fmt::Write;

#[derive(Clone, Debug)]
pub struct SCase {
    pub program: Program,
    /// emit as `proto_vulcan_query!` (true) or as a `proto_vulcan!` goal under the generic runner
    pub as_query: bool,
    /// take at most this many answers (for programs with a loop{} prefix)
    pub take: usize,
    /// answers must come in reference (depth-first) order
    pub ordered: bool,
    /// C15: index of the case this one is the alpha-renamed twin of
    pub twin_of: Option<usize>,
    /// print the renamed binders (indices beyond the fixed name table) with a leading underscore
    pub underscore: u8,
}

// ---------------------------------------------------------------------------------------------
// printer

thread_local! {
    /// printer mode: write list tails as nested list literals (`[a | [b | c]]` for `[a, b | c]`)
    static NESTED_TAILS: std::cell::Cell<bool> = std::cell::Cell::new(false);
}

pub fn with_nested_tails<R>(on: bool, f: impl FnOnce() -> R) -> R {
    let prev = NESTED_TAILS.with(|n| n.replace(on));
    let r = f();
    NESTED_TAILS.with(|n| n.set(prev));
    r
}

fn lit_ok(t: &T) -> bool {
    !matches!(t, T::I(n) if *n < 0)
}

/// Term in tree-term position. `top`: operand position (compound constructors allowed).
pub fn term(t: &T, top: bool) -> String {
    match t {
        T::V(i) => var_name(*i),
        T::A(_) => panic!("reified variable in a program"),
        T::W => "_".into(),
        T::I(n) => {
            assert!(lit_ok(t));
            format!("{}", n)
        }
        T::B(b) => format!("{}", b),
        T::C(c) => format!("{:?}", c),
        T::S(s) => format!("{:?}", s),
        T::Nil => "[]".into(),
        T::Cons(h, tl) if NESTED_TAILS.with(|n| n.get()) && matches!(**tl, T::Cons(_, _)) => {
            // the same term written with a list literal in tail position: [h | [..]]
            format!("[{} | {}]", term(h, false), term(tl, false))
        }
        T::Cons(_, _) => {
            let (items, tail) = t.list_parts();
            let mut s = String::from("[");
            for (i, it) in items.iter().enumerate() {
                if i > 0 {
                    s.push_str(", ");
                }
                s.push_str(&term(it, false));
            }
            if *tail != T::Nil {
                s.push_str(" | ");
                s.push_str(&term(tail, false));
            }
            s.push(']');
            s
        }
        T::Cmp(tag, fs) => {
            assert!(top, "compound constructors are only writable in operand position");
            let args: Vec<String> = fs.iter().map(|f| term(f, true)).collect();
            match tag {
                Tag::Tuple => format!("({})", args.join(", ")),
                Tag::Pair | Tag::Pair2 | Tag::Box1 | Tag::Rec => format!("{}({})", tag.name(), args.join(", ")),
                Tag::Named => format!("Named {{ a: {}, b: {} }}", args[0], args[1]),
                other => panic!("{} has no writable constructor syntax", other.name()),
            }
        }
    }
}

/// Pattern position of a match arm: named-struct patterns are writable here.
pub fn pattern(t: &T) -> String {
    match t {
        T::Cmp(Tag::Named, fs) => format!("Named {{ a: {}, b: {} }}", pattern_arg(&fs[0]), pattern_arg(&fs[1])),
        T::Cmp(tag @ (Tag::Pair | Tag::Pair2 | Tag::Box1 | Tag::Rec), fs) => format!("{}({})", tag.name(), fs.iter().map(pattern_arg).collect::<Vec<_>>().join(", ")),
        other => term(other, false),
    }
}

fn pattern_arg(t: &T) -> String {
    match t {
        T::Cmp(_, _) => pattern(t),
        other => term(other, false),
    }
}

fn clauses(gs: &[G], salt: usize) -> String {
    gs.iter().enumerate().map(|(i, g)| clause(g, salt + i)).collect::<Vec<_>>().join(", ")
}

fn arm(a: &[G], salt: usize) -> String {
    // both arm forms of the grammar: a bare clause, or a bracketed conjunction
    if a.len() == 1 && salt % 2 == 0 && !matches!(a[0], G::Conj(_)) {
        clause(&a[0], salt)
    } else {
        format!("[{}]", clauses(a, salt))
    }
}

thread_local! {
    /// alternative clause forms (`fngoal`, goal-valued Rust expressions) for the same goals
    static ALT_FORMS: std::cell::Cell<bool> = std::cell::Cell::new(false);
    static ALT_COUNTER: std::cell::Cell<usize> = std::cell::Cell::new(0);
}

fn alt_on() -> bool {
    ALT_FORMS.with(|a| a.get())
}

fn alt_next() -> usize {
    ALT_COUNTER.with(|c| {
        let v = c.get();
        c.set(v + 1);
        v
    })
}

fn without_alt<R>(f: impl FnOnce() -> R) -> R {
    let prev = ALT_FORMS.with(|a| a.replace(false));
    let r = f();
    ALT_FORMS.with(|a| a.set(prev));
    r
}

pub fn clause(g: &G, salt: usize) -> String {
    match g {
        // the same goals written as an `fngoal` clause or as a Rust expression that evaluates to
        // a goal (both are clause forms of the grammar)
        G::Succeed if alt_on() => match alt_next() % 3 {
            0 => "fngoal |_engine, state| { ::proto_vulcan::stream::Stream::unit(Box::new(state)) }".into(),
            1 => "{ let g: Goal<DU, DE> = Goal::succeed(); g }".into(),
            _ => "true".into(),
        },
        G::Fail if alt_on() => match alt_next() % 3 {
            0 => "fngoal |_engine, _state| { ::proto_vulcan::stream::Stream::empty() }".into(),
            1 => "prelude_fail()".into(),
            _ => "false".into(),
        },
        G::Eq(T::V(v), T::I(k)) if alt_on() && *k >= 0 => match alt_next() % 4 {
            0 => format!("crate::prelude::eq_int({}.clone(), {})", var_name(*v), k),
            1 => format!(
                "{{ let captured = {}.clone(); let g: Goal<DU, DE> = proto_vulcan!(fngoal move |_engine, state| {{ crate::prelude::unify_int(state, &captured, {}) }}); g }}",
                var_name(*v),
                k
            ),
            _ => format!("{} == {}", var_name(*v), k),
        },
        G::Succeed => "true".into(),
        G::Fail => "false".into(),
        G::Eq(a, b) => format!("{} == {}", term(a, true), term(b, true)),
        G::Neq(a, b) => format!("{} != {}", term(a, true), term(b, true)),
        G::Conj(gs) => format!("[{}]", clauses(gs, salt)),
        G::Conde(arms) => format!("conde {{ {} }}", arms.iter().enumerate().map(|(i, a)| arm(a, salt + i)).collect::<Vec<_>>().join(", ")),
        G::Fresh(vs, gs) => format!("|{}| {{ {} }}", vs.iter().map(|v| var_name(*v)).collect::<Vec<_>>().join(", "), clauses(gs, salt)),
        G::Closure(b) => format!("closure {{ {} }}", clause(b, salt)),
        G::Anyo(gs) => format!("loop {{ {} }}", clauses(gs, salt)),
        G::Conda(arms) => format!("conda {{ {} }}", arms.iter().map(|a| format!("[{}]", clauses(a, salt))).collect::<Vec<_>>().join(", ")),
        G::Condu(arms) => format!("condu {{ {} }}", arms.iter().map(|a| format!("[{}]", clauses(a, salt))).collect::<Vec<_>>().join(", ")),
        G::Onceo(gs) => format!("onceo {{ {} }}", clauses(gs, salt)),
        // inside dfs the typed-by-context `cond` is the disjunction operator (`conde` is BFS-only)
        // (alternative forms are typed `Goal`: not inside the depth-first typing)
        G::Dfs(gs) => format!("dfs {{ {} }}", without_alt(|| clauses(gs, salt)).replace("conde {", "cond {")),
        G::Match(kind, t, arms) => {
            let mut s = format!("{} {} {{ ", kind.name(), term(t, false));
            for (pats, body) in arms {
                let ps: Vec<String> = pats.iter().map(|p| pattern(p)).collect();
                s.push_str(&ps.join(" | "));
                s.push_str(" => ");
                match body.len() {
                    0 => {}
                    1 => s.push_str(&clause(&body[0], salt)),
                    _ => {
                        s.push_str("{ ");
                        s.push_str(&clauses(body, salt));
                        s.push_str(" }");
                    }
                }
                s.push_str(", ");
            }
            s.push('}');
            s
        }
        G::Call(name, args) => {
            // argument forms: tree term, `{expr}` (cast with Into), compound/expression path
            let a: Vec<String> = args
                .iter()
                .enumerate()
                .map(|(i, t)| match (salt + i) % 3 {
                    1 if t.is_var() => format!("{{ {}.clone() }}", term(t, false)),
                    2 if !matches!(t, T::Cmp(_, _) | T::W) && !has_wild(t) => format!("{{ ::proto_vulcan::lterm!({}) }}", term(t, false)),
                    _ => term(t, true),
                })
                .collect();
            format!("{}({})", name, a.join(", "))
        }
        G::Rel(rel, args) => format!("{}({})", rel.name(), args.iter().map(|t| term(t, true)).collect::<Vec<_>>().join(", ")),
        G::For(x, coll, body) => format!(
            "for {} in &vec![{}] {{ {} }}",
            var_name(*x),
            coll.iter().map(|t| if t.is_var() { format!("{}.clone()", term(t, false)) } else { format!("::proto_vulcan::lterm!({})", term(t, false)) }).collect::<Vec<_>>().join(", "),
            clauses(body, salt)
        ),
        G::ForList(x, coll, body) => format!("for {} in &::proto_vulcan::lterm!({}) {{ {} }}", var_name(*x), term(&T::list(coll.clone()), false), clauses(body, salt)),
        G::Project(vs, gs) => format!("project |{}| {{ {} }}", vs.iter().map(|v| var_name(*v)).collect::<Vec<_>>().join(", "), without_alt(|| clauses(gs, salt))),
        other => panic!("no surface form for {}", other),
    }
}

fn has_wild(t: &T) -> bool {
    match t {
        T::W => true,
        T::Cons(h, tl) => has_wild(h) || has_wild(tl),
        T::Cmp(_, fs) => fs.iter().any(has_wild),
        _ => false,
    }
}

pub fn program_text(c: &SCase, salt: usize) -> String {
    let qs: Vec<String> = (0..c.program.nq).map(var_name).collect();
    format!("|{}| {{ {} }}", qs.join(", "), clauses(&c.program.body, salt))
}

// ---------------------------------------------------------------------------------------------
// families

fn q() -> T {
    T::V(0)
}
fn r() -> T {
    T::V(1)
}

/// C13: match / matche / matcha / matchu.
pub fn c13_cases(quick: bool) -> Vec<SCase> {
    // names: x = V2, y = V3 (pattern names); q = V0, r = V1 query variables
    let x = T::V(2);
    let y = T::V(3);
    let pats: Vec<T> = vec![
        T::W,
        x.clone(),
        T::I(1),
        T::S("a".into()),
        T::Nil,
        T::list(vec![x.clone()]),
        T::list(vec![x.clone(), y.clone()]),
        T::list(vec![x.clone(), x.clone()]),
        T::cons(x.clone(), y.clone()),
        T::cons(T::W, y.clone()),
        T::list(vec![T::I(1), x.clone()]),
        T::list(vec![T::W, T::W]),
        T::cons(x.clone(), T::cons(x.clone(), T::W)),
        T::Cmp(Tag::Pair, vec![x.clone(), y.clone()]),
        T::Cmp(Tag::Pair, vec![T::I(1), T::W]),
        T::Cmp(Tag::Pair, vec![x.clone(), x.clone()]),
        T::Cmp(Tag::Box1, vec![T::list(vec![x.clone()])]),
        T::Cmp(Tag::Named, vec![x.clone(), y.clone()]),
        T::Cmp(Tag::Named, vec![T::I(1), T::W]),
        T::Cmp(Tag::Pair, vec![T::Cmp(Tag::Box1, vec![x.clone()]), y.clone()]),
        // a pattern name equal to an outer variable's name (q): local to the arm
        T::list(vec![q(), T::I(2)]),
        // named-field patterns with a field written `[]` (it matches the empty list only)
        T::Cmp(Tag::Named, vec![x.clone(), T::Nil]),
        T::Cmp(Tag::Pair, vec![T::Cmp(Tag::Named, vec![T::Nil, x.clone()]), y.clone()]),
    ];
    let subjects: Vec<(Vec<G>, T)> = vec![
        (vec![], q()),
        (vec![G::Eq(q(), T::list(vec![T::I(1), T::I(2)]))], q()),
        (vec![G::Eq(q(), T::list(vec![T::I(1), T::I(1)]))], q()),
        (vec![G::Eq(q(), T::cons(T::I(1), r()))], q()),
        (vec![G::Eq(q(), T::Cmp(Tag::Pair, vec![T::I(1), r()]))], q()),
        (vec![G::Eq(q(), T::Cmp(Tag::Box1, vec![T::list(vec![T::I(3)])]))], q()),
        (vec![G::Eq(q(), T::Cmp(Tag::Pair, vec![T::Cmp(Tag::Box1, vec![T::I(4)]), T::I(5)]))], q()),
        (vec![G::Eq(q(), T::I(1))], q()),
        (vec![G::Eq(q(), T::Cmp(Tag::Pair, vec![T::Cmp(Tag::Named, vec![T::I(7), T::I(1)]), T::I(2)]))], q()),
        (vec![], T::list(vec![q(), r()])),
        (vec![G::Eq(r(), T::I(2))], T::list(vec![q(), r()])),
    ];
    let bodies: Vec<Vec<G>> = vec![
        vec![],
        vec![G::Eq(r(), x.clone())],
        vec![G::Eq(r(), T::list(vec![y.clone(), x.clone()])), G::Neq(x.clone(), T::I(9))],
        vec![G::Eq(r(), q())],
        vec![G::Fail],
    ];
    let compound_pat = |p: &T| matches!(p, T::Cmp(_, _));
    let mut out = vec![];
    let mut count = 0usize;
    let kinds = [MatchKind::Match, MatchKind::Matche, MatchKind::Matcha, MatchKind::Matchu];
    // one arm, every pattern x subject x body (body must only use names of the pattern or outer)
    for (setup, subj) in &subjects {
        for p in &pats {
            // compound patterns need a compound-typed or plain LTerm subject: fine for LTerm vars;
            // subjects that are list terms cannot be matched against compound patterns (types)
            if compound_pat(p) && !subj.is_var() {
                continue;
            }
            for b in &bodies {
                let mut pv = vec![];
                p.vars(&mut pv);
                // bodies mentioning x / y need the pattern to bind them (else the name is unbound Rust)
                let mut bv = vec![];
                for g in b {
                    if let G::Eq(l, rr) | G::Neq(l, rr) = g {
                        l.vars(&mut bv);
                        rr.vars(&mut bv);
                    }
                }
                if bv.iter().any(|v| (*v == x || *v == y) && !pv.contains(v)) {
                    continue;
                }
                count += 1;
                let kind = kinds[count % 4];
                if quick && count % 3 != 0 {
                    continue;
                }
                let mut body = setup.clone();
                body.push(G::Match(kind, subj.clone(), vec![(vec![p.clone()], b.clone())]));
                out.push(SCase { program: Program { nq: 2, body }, as_query: count % 7 == 0, take: 50, ordered: false, twin_of: None, underscore: 0 });
            }
        }
    }
    // alternatives of one arm that bind different sets of names, with a body that uses a name
    // bound by only some of them: where an alternative does not bind the name, the name denotes
    // the outer variable (here the query variable x itself, observable through y == [x])
    {
        let alt_sets: Vec<Vec<T>> = vec![
            vec![T::cons(q(), T::W), T::Nil],
            vec![T::Nil, T::cons(q(), T::W)],
            vec![T::list(vec![q(), T::W]), T::list(vec![q()]), T::Nil],
            vec![T::I(1), T::list(vec![q()])],
            vec![T::list(vec![T::W, q()]), T::list(vec![T::W])],
        ];
        let subj_terms: Vec<T> = vec![T::Nil, T::list(vec![T::I(7)]), T::list(vec![T::I(7), T::I(8)]), T::I(1)];
        for alts in &alt_sets {
            for st in &subj_terms {
                for kind in kinds {
                    let m = G::Match(kind, st.clone(), vec![(alts.clone(), vec![G::Eq(r(), T::list(vec![q()]))]), (vec![T::W], vec![G::Eq(r(), T::I(0))])]);
                    out.push(SCase { program: Program { nq: 2, body: vec![m] }, as_query: false, take: 50, ordered: false, twin_of: None, underscore: 0 });
                }
            }
        }
    }
    // arms whose body is, or contains, the static `false`: under match / matche the arm simply has
    // no answers, under matcha / matchu a matching arm still commits (and suppresses later arms)
    {
        let subj_terms: Vec<T> = vec![T::Nil, T::list(vec![T::I(7)]), T::I(1), T::list(vec![T::I(1), T::I(2)])];
        let first_pats: Vec<Vec<T>> = vec![vec![T::Nil], vec![T::I(1), T::list(vec![T::W, T::W])], vec![T::cons(q(), T::W)]];
        let bodies: Vec<Vec<G>> = vec![vec![G::Fail], vec![G::Eq(r(), T::I(5)), G::Fail], vec![G::Conj(vec![G::Fail, G::Eq(r(), T::I(5))])], vec![G::Succeed]];
        for st in &subj_terms {
            for fp in &first_pats {
                for b in &bodies {
                    for kind in kinds {
                        let arms = vec![(fp.clone(), b.clone()), (vec![T::W], vec![G::Eq(r(), T::I(0))])];
                        out.push(SCase { program: Program { nq: 2, body: vec![G::Match(kind, st.clone(), arms)] }, as_query: false, take: 50, ordered: false, twin_of: None, underscore: 0 });
                        let arms3 = vec![(vec![T::I(9)], vec![G::Eq(r(), T::I(9))]), (fp.clone(), b.clone()), (vec![T::W], vec![G::Eq(r(), T::I(0))])];
                        out.push(SCase { program: Program { nq: 2, body: vec![G::Match(kind, st.clone(), arms3)] }, as_query: false, take: 50, ordered: false, twin_of: None, underscore: 0 });
                    }
                }
            }
        }
    }
    // an arm body that READS the pattern's variable with a committing goal (nested matcha / matchu
    // on it, onceo over alternatives for it): the pattern has to be unified before the body runs,
    // with one arm as with several, whatever the match kind
    {
        let subj_vals: Vec<T> = vec![T::list(vec![T::I(2), T::I(3)]), T::list(vec![T::I(1), T::I(3)]), T::list(vec![T::list(vec![T::I(1)]), T::I(3)])];
        for kind in kinds {
            for inner in [MatchKind::Matcha, MatchKind::Matchu] {
                for sv in &subj_vals {
                    let nested = G::Match(inner, x.clone(), vec![(vec![T::I(1)], vec![G::Eq(r(), T::I(10))]), (vec![T::W], vec![G::Eq(r(), T::I(20))])]);
                    let once = G::Onceo(vec![G::Conde(vec![vec![G::Eq(x.clone(), T::I(1))], vec![G::Eq(x.clone(), T::I(2))]])]);
                    // two body goals that must run in the order written: y == x, then a commit on y
                    let nested_y = G::Match(inner, y.clone(), vec![(vec![T::I(1)], vec![G::Eq(r(), T::I(10))]), (vec![T::W], vec![G::Eq(r(), T::I(20))])]);
                    {
                        let body = vec![G::Eq(y.clone(), x.clone()), nested_y.clone()];
                        let one = G::Match(kind, q(), vec![(vec![T::cons(x.clone(), T::W)], body.clone())]);
                        let two = G::Match(kind, q(), vec![(vec![T::Nil], vec![G::Eq(r(), T::I(0))]), (vec![T::cons(x.clone(), T::W)], body.clone())]);
                        for m in [one, two] {
                            out.push(SCase { program: Program { nq: 2, body: vec![G::Fresh(vec![3], vec![G::Eq(q(), sv.clone()), m])] }, as_query: false, take: 50, ordered: false, twin_of: None, underscore: 0 });
                        }
                    }
                    for body in [vec![nested.clone()], vec![once.clone(), G::Eq(r(), x.clone())], vec![G::Eq(r(), x.clone()), once.clone()]] {
                        let one = G::Match(kind, q(), vec![(vec![T::cons(x.clone(), T::W)], body.clone())]);
                        let two = G::Match(kind, q(), vec![(vec![T::Nil], vec![G::Eq(r(), T::I(0))]), (vec![T::cons(x.clone(), T::W)], body.clone())]);
                        for m in [one, two] {
                            out.push(SCase { program: Program { nq: 2, body: vec![G::Eq(q(), sv.clone()), m.clone()] }, as_query: false, take: 50, ordered: false, twin_of: None, underscore: 0 });
                            out.push(SCase { program: Program { nq: 2, body: vec![m, G::Eq(q(), sv.clone())] }, as_query: false, take: 50, ordered: false, twin_of: None, underscore: 0 });
                        }
                    }
                }
            }
        }
    }
    // two or three arms with alternatives: all four kinds on the same arms
    let list_pats: Vec<T> = pats.iter().filter(|p| !compound_pat(p)).cloned().collect();
    let n = list_pats.len();
    for i in 0..n {
        for j in 0..n {
            if i == j {
                continue;
            }
            count += 1;
            if (i * 5 + j) % (if quick { 7 } else { 2 }) != 0 {
                continue;
            }
            let k = (i + 2 * j) % n;
            let arms: Vec<(Vec<T>, Vec<G>)> = vec![
                (vec![list_pats[i].clone(), list_pats[k].clone()], vec![G::Eq(r(), T::I(1))]),
                (vec![list_pats[j].clone()], vec![G::Eq(r(), T::I(2))]),
                (vec![T::W], vec![G::Eq(r(), T::I(3))]),
            ];
            for (setup, subj) in subjects.iter().take(4).chain(subjects.iter().skip(6).take(1)) {
                for kind in kinds {
                    let mut body = setup.clone();
                    // r is used by the bodies here, so subjects binding r are skipped
                    if setup.iter().any(|g| g.to_string().contains('y')) {
                        continue;
                    }
                    body.push(G::Match(kind, subj.clone(), arms.clone()));
                    out.push(SCase { program: Program { nq: 2, body }, as_query: false, take: 50, ordered: false, twin_of: None, underscore: 0 });
                }
            }
        }
    }
    out
}

/// Terms written with `lterm!` and compared structurally with the builder's term (C14).
pub fn c14_lterm_terms() -> Vec<T> {
    let lits: Vec<T> = vec![T::I(0), T::I(7), T::B(true), T::B(false), T::C('c'), T::S("s".into()), T::S("".into())];
    let mut terms: Vec<T> = lits.clone();
    terms.extend(vec![T::Nil, T::W, q(), r()]);
    let items: Vec<T> = lits.iter().cloned().chain(vec![T::Nil, T::W, q(), r(), T::list(vec![T::I(1)]), T::cons(q(), r())]).collect();
    for a in &items {
        terms.push(T::list(vec![a.clone()]));
        for b in &items {
            terms.push(T::list(vec![a.clone(), b.clone()]));
            if *b != T::Nil && !matches!(b, T::Cons(_, _)) {
                terms.push(T::cons(a.clone(), b.clone()));
                terms.push(T::improper(vec![a.clone(), T::I(3)], b.clone()));
            }
        }
    }
    terms.push(T::list(vec![T::list(vec![T::list(vec![q()])]), T::list(vec![]), T::cons(T::I(1), T::cons(T::I(2), r()))]));
    // improper lists with two or three heads nested as element, as tail, and inside each other
    let imp2 = |a: T, b: T, t: T| T::improper(vec![a, b], t);
    terms.push(T::list(vec![T::I(0), imp2(T::I(1), T::I(2), T::I(3))]));
    terms.push(T::list(vec![imp2(q(), r(), T::I(3)), T::I(0)]));
    terms.push(T::cons(T::I(0), imp2(T::I(1), T::I(2), r())));
    terms.push(T::list(vec![T::list(vec![imp2(T::I(1), T::B(true), q())])]));
    terms.push(T::improper(vec![T::I(1), T::I(2), T::I(3)], q()));
    terms.push(T::list(vec![T::improper(vec![T::I(1), T::I(2), T::I(3)], T::C('c')), imp2(T::S("s".into()), T::I(7), T::I(0))]));
    terms.push(imp2(imp2(T::I(1), T::I(2), T::I(3)), imp2(q(), T::I(5), r()), T::I(6)));
    terms
}

/// C14: the clause grammar and the term grammar.
pub fn c14_cases(quick: bool) -> Vec<SCase> {
    let x = T::V(2);
    let y = T::V(3);
    // terms of every literal kind in every position kind
    let lits: Vec<T> = vec![T::I(0), T::I(7), T::B(true), T::B(false), T::C('c'), T::S("s".into()), T::S("".into())];
    let mut terms: Vec<T> = lits.clone();
    for l in &lits {
        terms.push(T::list(vec![l.clone()]));
        terms.push(T::list(vec![T::I(1), l.clone()]));
        terms.push(T::cons(T::I(1), l.clone()));
        terms.push(T::list(vec![T::list(vec![l.clone()]), T::Nil]));
    }
    terms.extend(vec![
        T::Nil,
        T::W,
        T::list(vec![T::W, T::I(1)]),
        T::cons(T::W, T::W),
        T::list(vec![r(), r()]),
        T::cons(r(), T::list(vec![T::I(1)])),
        T::improper(vec![T::I(1), T::I(2)], r()),
        T::list(vec![T::I(0), T::improper(vec![T::I(1), T::I(2)], T::I(3))]),
        T::list(vec![T::improper(vec![r(), T::I(2), T::I(3)], T::I(4)), T::I(5)]),
        T::cons(T::I(0), T::improper(vec![T::I(1), T::I(2)], r())),
        T::list(vec![T::list(vec![T::list(vec![r()])])]),
        T::Cmp(Tag::Pair, vec![T::I(1), r()]),
        T::Cmp(Tag::Tuple, vec![r(), T::I(2)]),
        T::Cmp(Tag::Box1, vec![T::list(vec![r(), T::I(1)])]),
        T::Cmp(Tag::Pair, vec![T::Cmp(Tag::Box1, vec![T::I(1)]), T::Nil]),
        // a named-field compound with a field written `[]`, nested in another constructor
        T::Cmp(Tag::Pair, vec![T::Cmp(Tag::Named, vec![T::I(1), T::Nil]), T::I(2)]),
        T::Cmp(Tag::Box1, vec![T::Cmp(Tag::Named, vec![T::Nil, r()])]),
    ]);
    let mut out = vec![];
    let mut count = 0usize;
    let mut push = |out: &mut Vec<SCase>, body: Vec<G>, nq: u32, take: usize, ordered: bool| {
        count += 1;
        out.push(SCase { program: Program { nq, body }, as_query: count % 5 == 0, take, ordered, twin_of: None, underscore: 0 });
    };
    // (1) every term on either side of == and != and as relation / user-relation argument
    for t in &terms {
        push(&mut out, vec![G::Eq(q(), t.clone())], 2, 50, false);
        push(&mut out, vec![G::Eq(t.clone(), q())], 2, 50, false);
        push(&mut out, vec![G::Neq(q(), t.clone()), G::Eq(r(), T::I(1))], 2, 50, false);
        if !matches!(t, T::Cmp(_, _)) {
            push(&mut out, vec![G::Call("same".into(), vec![q(), t.clone()])], 2, 50, false);
            push(&mut out, vec![G::Call("pairo".into(), vec![t.clone(), r(), q()])], 2, 50, false);
        }
    }
    // (1b) one argument term used by two goals of the callee: a `_` written as an argument is ONE
    // variable inside the relation, whichever position it is written in
    for t in &terms {
        if matches!(t, T::Cmp(_, _)) {
            continue;
        }
        push(&mut out, vec![G::Call("botho".into(), vec![t.clone(), q(), r()])], 2, 50, false);
        push(&mut out, vec![G::Call("botho".into(), vec![q(), t.clone(), r()])], 2, 50, false);
        push(&mut out, vec![G::Call("botho".into(), vec![t.clone(), T::I(7), q()]), G::Eq(r(), T::I(1))], 2, 50, false);
        push(&mut out, vec![G::Call("botho".into(), vec![t.clone(), T::I(1), T::I(2)])], 2, 50, false);
        push(&mut out, vec![G::Call("botho".into(), vec![t.clone(), T::list(vec![q(), T::I(1)]), T::list(vec![T::I(2), r()])])], 2, 50, false);
    }
    // (2) clause forms over a small alphabet of leaves
    let leaves: Vec<G> = vec![
        G::Eq(q(), T::I(1)),
        G::Eq(q(), T::I(2)),
        G::Eq(r(), q()),
        G::Neq(q(), T::I(1)),
        G::Succeed,
        G::Fail,
        G::Eq(r(), T::list(vec![q(), T::I(3)])),
    ];
    let n = leaves.len();
    for i in 0..n {
        for j in 0..n {
            if quick && (i + j) % 2 == 1 {
                continue;
            }
            let (a, b) = (leaves[i].clone(), leaves[j].clone());
            let c = leaves[(i + j + 1) % n].clone();
            push(&mut out, vec![G::Conj(vec![a.clone(), b.clone()])], 2, 50, false);
            push(&mut out, vec![G::Conde(vec![vec![a.clone()], vec![b.clone()]])], 2, 50, false);
            push(&mut out, vec![G::Conde(vec![vec![a.clone(), c.clone()], vec![b.clone()], vec![G::Conj(vec![c.clone(), a.clone()])]])], 2, 50, false);
            push(&mut out, vec![G::Fresh(vec![2], vec![G::Eq(x.clone(), T::I(5)), a.clone(), G::Eq(r(), x.clone())]), b.clone()], 2, 50, false);
            push(&mut out, vec![G::Closure(Box::new(G::Conj(vec![a.clone(), b.clone()])))], 2, 50, false);
            // (a closure nested in a closure that captures the same Rust variable does not compile:
            // `move` closures inside an `Fn` closure — a limit of the surface, not a semantic claim)
            push(&mut out, vec![G::Closure(Box::new(G::Conde(vec![vec![a.clone()], vec![b.clone(), c.clone()]])))], 2, 50, false);
            // committed choice keeps the head's first answer *in engine order*: the head is made
            // depth-first so that this order is the reference order
            push(&mut out, vec![G::Onceo(vec![G::Dfs(vec![G::Conde(vec![vec![a.clone()], vec![b.clone()]])])])], 2, 50, true);
            push(&mut out, vec![G::Conda(vec![vec![a.clone(), c.clone()], vec![b.clone()]])], 2, 50, false);
            push(&mut out, vec![G::Condu(vec![vec![G::Dfs(vec![G::Conde(vec![vec![a.clone()], vec![b.clone()]])]), c.clone()], vec![b.clone()]])], 2, 50, true);
            push(&mut out, vec![G::Dfs(vec![G::Conde(vec![vec![a.clone()], vec![b.clone()]]), c.clone()])], 2, 50, true);
            // loop{} as a prefix under take: answers repeat, so only a bounded prefix is judged
            push(&mut out, vec![G::Anyo(vec![G::Conde(vec![vec![a.clone()], vec![b.clone()]])])], 2, 6, false);
            // a loop body of several goals, as separate clauses and as one bracketed clause: every
            // pass runs the whole body
            push(&mut out, vec![G::Anyo(vec![G::Conde(vec![vec![a.clone()], vec![b.clone()]]), c.clone()])], 2, 6, false);
            push(&mut out, vec![G::Anyo(vec![G::Conj(vec![G::Conde(vec![vec![a.clone()], vec![b.clone()]]), c.clone()])])], 2, 6, false);
        }
    }
    // (3) nested structures and relation calls
    for i in 0..n {
        let a = leaves[i].clone();
        let b = leaves[(i + 2) % n].clone();
        push(&mut out, vec![G::Fresh(vec![2, 3], vec![G::Eq(x.clone(), T::list(vec![y.clone()])), G::Conde(vec![vec![G::Eq(y.clone(), T::I(1)), a.clone()], vec![G::Eq(y.clone(), q())]]), G::Eq(r(), x.clone())])], 2, 50, false);
        push(&mut out, vec![G::Rel(Rel::Member, vec![q(), T::list(vec![T::I(1), T::I(2), T::I(1)])]), b.clone()], 2, 50, false);
        push(&mut out, vec![G::Rel(Rel::Append, vec![q(), r(), T::list(vec![T::I(1), T::I(2)])]), a.clone()], 2, 50, false);
        push(&mut out, vec![G::Rel(Rel::ConsR, vec![T::I(1), q(), r()]), b.clone()], 2, 50, false);
        push(&mut out, vec![G::Call("lasto".into(), vec![T::list(vec![T::I(1), q(), T::I(3)]), r()]), a.clone()], 2, 50, false);
        // (the body of `for` is a non-move 'static closure: it can only mention the loop variable)
        push(&mut out, vec![G::For(2, vec![T::I(1), q(), r()], vec![G::Conde(vec![vec![G::Eq(x.clone(), T::I(1))], vec![G::Eq(x.clone(), T::I(2))]])]), a.clone()], 2, 50, false);
        push(&mut out, vec![G::For(2, vec![q(), r()], vec![G::Neq(x.clone(), T::I(1)), G::Neq(x.clone(), T::list(vec![T::I(2)]))]), b.clone()], 2, 50, false);
        push(&mut out, vec![G::For(2, vec![], vec![G::Fail]), a.clone()], 2, 50, false);
        push(&mut out, vec![G::ForList(2, vec![T::I(1), T::I(2)], vec![G::Neq(x.clone(), T::I(3))]), b.clone()], 2, 50, false);
        push(&mut out, vec![G::Eq(q(), T::I(4)), G::Project(vec![0], vec![G::Eq(r(), T::list(vec![q()]))]), a.clone()], 2, 50, false);
        // a project goal behind a closure (a relation written as a function), entered by several
        // states: the closure rebuilds its body, and with it the projection, for every state
        push(&mut out, vec![G::Conde(vec![vec![G::Eq(q(), T::I(4))], vec![G::Eq(q(), T::I(5))], vec![G::Eq(q(), T::list(vec![T::I(6)]))]]), G::Call("projo".into(), vec![q(), r()]), a.clone()], 2, 50, false);
        push(&mut out, vec![G::Fresh(vec![2], vec![G::Conde(vec![vec![G::Eq(q(), T::I(4))], vec![G::Eq(q(), T::I(5))]]), G::Call("projo".into(), vec![q(), x.clone()]), G::Call("projo".into(), vec![x.clone(), r()])])], 2, 50, false);
    }
    // (4) query-variable order: 1..3 query variables, each bound to a distinct value
    for nq in 1..=3u32 {
        let body: Vec<G> = (0..nq).rev().map(|i| G::Eq(T::V(i), T::I(10 + i as i64))).collect();
        out.push(SCase { program: Program { nq, body }, as_query: true, take: 5, ordered: false, twin_of: None, underscore: 0 });
    }
    out
}

/// Consistently renames every binder (fresh clause, pattern arm) to a unique new name.
pub fn alpha_rename(p: &Program) -> Program {
    fn goals(gs: &[G], next: &mut u32) -> Vec<G> {
        gs.iter().map(|g| goal(g, next)).collect()
    }
    fn goal(g: &G, next: &mut u32) -> G {
        match g {
            G::Fresh(vs, body) => {
                let mut b = body.clone();
                let mut nvs = vec![];
                for v in vs {
                    let nv = *next;
                    *next += 1;
                    b = b.iter().map(|x| crate::refm::subst_goal(x, *v, &T::V(nv))).collect();
                    nvs.push(nv);
                }
                G::Fresh(nvs, goals(&b, next))
            }
            G::Match(kind, t, arms) => {
                let mut narms = vec![];
                for (pats, body) in arms {
                    // alternatives of one arm share the body: rename per name consistently
                    let mut names: Vec<u32> = vec![];
                    for p in pats {
                        let mut pv = vec![];
                        p.vars(&mut pv);
                        for v in pv {
                            if let T::V(i) = v {
                                if !names.contains(&i) {
                                    names.push(i);
                                }
                            }
                        }
                    }
                    let mut np: Vec<T> = pats.clone();
                    let mut nb: Vec<G> = body.clone();
                    for i in names {
                        let nv = *next;
                        *next += 1;
                        np = np.iter().map(|p| p.map_vars(&mut |x| if *x == T::V(i) { T::V(nv) } else { x.clone() })).collect();
                        nb = nb.iter().map(|x| crate::refm::subst_goal(x, i, &T::V(nv))).collect();
                    }
                    narms.push((np, goals(&nb, next)));
                }
                G::Match(*kind, t.clone(), narms)
            }
            G::Conj(gs) => G::Conj(goals(gs, next)),
            G::Conde(arms) => G::Conde(arms.iter().map(|a| goals(a, next)).collect()),
            G::Closure(b) => G::Closure(Box::new(goal(b, next))),
            G::Onceo(gs) => G::Onceo(goals(gs, next)),
            G::Conda(arms) => G::Conda(arms.iter().map(|a| goals(a, next)).collect()),
            G::Condu(arms) => G::Condu(arms.iter().map(|a| goals(a, next)).collect()),
            other => other.clone(),
        }
    }
    // unique names start above every name used (kept below the table of printable names)
    let mut next = 6u32;
    Program { nq: p.nq, body: goals(&p.body, &mut next) }
}

/// C15: scoping — shadowing, same names in sibling scopes, recursion with fresh variables.
pub fn c15_cases(quick: bool) -> Vec<SCase> {
    let x = T::V(2);
    let y = T::V(3);
    let leaf = |t: &T, k: i64| G::Eq(t.clone(), T::I(k));
    let mut base: Vec<Vec<G>> = vec![];
    // shadowing structures over the binder names {x, y} and the query variables q, r
    let inner_bodies: Vec<Vec<G>> = vec![
        vec![leaf(&x, 1), G::Eq(q(), x.clone())],
        vec![G::Eq(q(), T::list(vec![x.clone(), y.clone()]))],
        vec![G::Neq(x.clone(), q()), leaf(&x, 2)],
        vec![G::Eq(r(), x.clone())],
    ];
    for a in &inner_bodies {
        for b in &inner_bodies {
            // sibling scopes with the same names
            base.push(vec![G::Fresh(vec![2, 3], a.clone()), G::Fresh(vec![2, 3], b.clone())]);
            // nested scope shadowing x
            let mut outer = vec![leaf(&x, 7)];
            outer.push(G::Fresh(vec![2], b.clone()));
            outer.extend(a.iter().cloned());
            base.push(vec![G::Fresh(vec![2, 3], outer)]);
            // shadowing a query variable's name: |q| inside
            base.push(vec![G::Fresh(vec![0], vec![leaf(&q(), 5)]), G::Fresh(vec![2, 3], a.clone()), G::Eq(r(), q())]);
            // fresh inside conde arms and closures
            base.push(vec![G::Conde(vec![vec![G::Fresh(vec![2, 3], a.clone())], vec![G::Closure(Box::new(G::Fresh(vec![2, 3], b.clone())))]])]);
            // pattern arms binding the same names as an enclosing fresh
            base.push(vec![G::Fresh(vec![2, 3], vec![leaf(&x, 1), G::Match(MatchKind::Match, T::list(vec![q(), r()]), vec![(vec![T::list(vec![x.clone(), y.clone()])], b.clone()), (vec![T::cons(y.clone(), T::W)], vec![G::Eq(y.clone(), T::I(3))])]), G::Eq(r(), x.clone())])]);
        }
    }
    // a pattern arm that shadows (part of) its own scrutinee: the matched term is the OUTER
    // variable, the names in the pattern are new ones
    for kind in [MatchKind::Match, MatchKind::Matche, MatchKind::Matcha, MatchKind::Matchu] {
        base.push(vec![G::Fresh(vec![2], vec![G::Eq(x.clone(), T::list(vec![T::I(1), T::I(2), T::I(3)])), G::Match(kind, x.clone(), vec![(vec![T::cons(T::W, x.clone())], vec![G::Eq(r(), x.clone())])]), G::Eq(q(), x.clone())])]);
        base.push(vec![G::Fresh(vec![2, 3], vec![leaf(&x, 1), leaf(&y, 2), G::Match(kind, T::list(vec![x.clone(), y.clone()]), vec![(vec![T::list(vec![y.clone(), x.clone()])], vec![G::Eq(q(), T::list(vec![x.clone(), y.clone()]))])]), G::Eq(r(), T::list(vec![x.clone(), y.clone()]))])]);
        base.push(vec![G::Fresh(vec![2], vec![G::Match(kind, x.clone(), vec![(vec![x.clone()], vec![G::Eq(q(), x.clone()), leaf(&x, 4)])]), G::Eq(r(), x.clone())])]);
        base.push(vec![G::Match(kind, q(), vec![(vec![T::cons(T::W, q())], vec![G::Eq(r(), q())]), (vec![T::W], vec![G::Eq(r(), T::I(0))])]), G::Eq(q(), T::list(vec![T::I(1), T::I(2)]))]);
        base.push(vec![G::Eq(q(), T::list(vec![T::I(1), T::list(vec![T::I(2)])])), G::Match(kind, q(), vec![(vec![T::list(vec![T::W, q()])], vec![G::Match(kind, q(), vec![(vec![T::list(vec![q()])], vec![G::Eq(r(), q())])])])])]);
    }
    // nested scopes with a single goal inside, racing a sibling branch: whatever the binders are
    // called, the answers come in the same order
    base.push(vec![G::Conde(vec![vec![G::Fresh(vec![2], vec![G::Fresh(vec![3], vec![leaf(&q(), 1)])])], vec![leaf(&q(), 2)]])]);
    base.push(vec![G::Conde(vec![vec![leaf(&q(), 2)], vec![G::Fresh(vec![2], vec![G::Fresh(vec![3], vec![G::Fresh(vec![4], vec![leaf(&q(), 1)])])])], vec![leaf(&q(), 3)]])]);
    base.push(vec![G::Conde(vec![vec![G::Fresh(vec![2], vec![G::Eq(q(), T::list(vec![x.clone()]))])], vec![G::Fresh(vec![2], vec![G::Fresh(vec![3], vec![G::Eq(q(), T::list(vec![x.clone(), y.clone()]))])])], vec![leaf(&q(), 0)]])]);
    base.push(vec![G::Fresh(vec![2], vec![G::Conde(vec![vec![G::Fresh(vec![3], vec![G::Fresh(vec![4], vec![leaf(&x, 1)])])], vec![leaf(&x, 2)]])]), G::Eq(q(), r())]);
    // two branches, each two scopes deep with several goals inside (a renaming of the binders of
    // ONE branch must not change how the branches take turns)
    {
        let (a, b, c, d) = (T::V(2), T::V(3), T::V(4), T::V(5));
        let br = |o: &T, i: &T, k: i64| G::Fresh(vec![match o { T::V(n) => *n, _ => 0 }], vec![G::Fresh(vec![match i { T::V(n) => *n, _ => 0 }], vec![G::Eq(i.clone(), o.clone()), G::Eq(o.clone(), T::I(k)), G::Eq(q(), i.clone())])]);
        base.push(vec![G::Conde(vec![vec![br(&a, &b, 1)], vec![br(&c, &d, 2)]])]);
        base.push(vec![G::Conde(vec![vec![br(&a, &b, 1)], vec![br(&c, &d, 2)], vec![leaf(&q(), 3)]])]);
        base.push(vec![G::Conde(vec![vec![leaf(&q(), 3)], vec![br(&a, &b, 1)], vec![G::Closure(Box::new(br(&c, &d, 2)))]])]);
        base.push(vec![G::Conde(vec![vec![br(&a, &b, 1), leaf(&r(), 0)], vec![leaf(&r(), 1), br(&c, &d, 2)]])]);
    }
    // one goal VALUE solved twice on the same path: its fresh variables are new each time
    base.push(vec![G::Call("twiceo".into(), vec![q(), r()])]);
    base.push(vec![G::Call("cello".into(), vec![q(), r()]), G::Call("cello".into(), vec![q(), r()])]);
    base.push(vec![G::Fresh(vec![2], vec![G::Call("twiceo".into(), vec![x.clone(), r()]), G::Eq(q(), T::list(vec![x.clone(), r()]))])]);
    base.push(vec![G::Conde(vec![vec![G::Call("twiceo".into(), vec![q(), r()])], vec![G::Call("twiceo".into(), vec![r(), q()])]])]);
    // recursion: every unfolding introduces variables with the same names
    for l in [T::list(vec![T::I(1), T::I(2), T::I(3)]), T::list(vec![T::I(1), q()]), T::list(vec![q(), T::I(2), q()])] {
        base.push(vec![G::Call("zipo".into(), vec![l.clone(), r()])]);
        base.push(vec![G::Call("lasto".into(), vec![l.clone(), r()])]);
        base.push(vec![G::Fresh(vec![2], vec![G::Call("zipo".into(), vec![l.clone(), x.clone()]), G::Call("lasto".into(), vec![x.clone(), r()])])]);
        base.push(vec![G::Fresh(vec![2, 3], vec![G::Call("zipo".into(), vec![l.clone(), x.clone()]), G::Call("zipo".into(), vec![x.clone(), y.clone()]), G::Call("lasto".into(), vec![y.clone(), r()])])]);
    }
    let mut out = vec![];
    for (i, b) in base.into_iter().enumerate() {
        if quick && i % 2 == 1 && i > 20 && i < 80 {
            continue;
        }
        let p = Program { nq: 2, body: b };
        let renamed = alpha_rename(&p);
        let idx = out.len();
        out.push(SCase { program: p, as_query: i % 6 == 0, take: 50, ordered: false, twin_of: None, underscore: 0 });
        out.push(SCase { program: renamed.clone(), as_query: i % 6 == 0, take: 50, ordered: false, twin_of: Some(idx), underscore: 0 });
        // the same twin with underscore-prefixed binder names (`_v7`): a name is only a name
        out.push(SCase { program: renamed, as_query: i % 6 == 0, take: 50, ordered: false, twin_of: Some(idx), underscore: 1 });
        out.push(SCase { program: alpha_rename(&out[idx].program.clone()), as_query: i % 6 == 0, take: 50, ordered: false, twin_of: Some(idx), underscore: 2 });
        out.push(SCase { program: alpha_rename(&out[idx].program.clone()), as_query: i % 6 == 0, take: 50, ordered: false, twin_of: Some(idx), underscore: 3 });
    }
    out
}

pub fn cases(id: &str, quick: bool) -> Vec<SCase> {
    match id {
        "C13" => c13_cases(quick),
        "C14" => c14_cases(quick),
        "C15" => c15_cases(quick),
        _ => vec![],
    }
}

// ---------------------------------------------------------------------------------------------
// source generation

pub const MODULES: usize = 16;

/// Writes `gen_<k>.rs` modules and `mod.rs` into `dir`; returns (cases, line index) where the line
/// index maps (module, first line, last line) to a case for attributing compile errors.
pub fn generate(id: &str, quick: bool, dir: &str) -> std::io::Result<usize> {
    let cs = cases(id, quick);
    std::fs::create_dir_all(dir)?;
    // remove stale modules
    if let Ok(rd) = std::fs::read_dir(dir) {
        for e in rd.flatten() {
            let _ = std::fs::remove_file(e.path());
        }
    }
    let mut index = String::new();
    let per = (cs.len() + MODULES - 1) / MODULES.max(1);
    let mut modrs = String::from("// generated by `pvmc gen` - do not edit\n");
    for m in 0..MODULES {
        let lo = m * per;
        let hi = ((m + 1) * per).min(cs.len());
        let mut src = String::new();
        src.push_str("// generated by `pvmc gen` - do not edit\n#![allow(unused, non_snake_case)]\nuse super::super::prelude::*;\n\n");
        let mut line = src.lines().count() + 1;
        for i in lo..hi.max(lo) {
            let c = &cs[i];
            let start = line;
            let mut f = String::new();
            let nested = i % 3 == 1;
            let prev = NESTED_TAILS.with(|n| n.replace(nested));
            ALT_FORMS.with(|a| a.set(id == "C14" && i % 4 == 2));
            crate::ast::UNDERSCORE_NAMES.with(|u| u.set(c.underscore));
            ALT_COUNTER.with(|c| c.set(i / 4));
            let names: Vec<String> = (0..c.program.nq).map(var_name).collect();
            if c.as_query {
                writeln!(f, "pub fn case_{}(max: usize) -> Vec<Vec<LResult<DU, DE>>> {{", i).unwrap();
                writeln!(f, "    let query = proto_vulcan_query!(|{}| {{ {} }});", names.join(", "), clauses(&c.program.body, i)).unwrap();
                writeln!(f, "    query.run().take(max).map(|r| vec![{}]).collect()", names.iter().map(|n| format!("r.{}", n)).collect::<Vec<_>>().join(", ")).unwrap();
                writeln!(f, "}}").unwrap();
            } else {
                writeln!(f, "pub fn case_{}(max: usize) -> Vec<Vec<LResult<DU, DE>>> {{", i).unwrap();
                for n in &names {
                    writeln!(f, "    let {}: LTerm<DU, DE> = LTerm::var(\"{}\");", n, n).unwrap();
                }
                // the query variables are cloned first: `closure { }` moves what it captures
                writeln!(f, "    let qvars = vec![{}];", names.iter().map(|n| format!("{}.clone()", n)).collect::<Vec<_>>().join(", ")).unwrap();
                writeln!(f, "    let goal: Goal<DU, DE> = proto_vulcan!([ {} ]);", clauses(&c.program.body, i)).unwrap();
                writeln!(f, "    run_goal(qvars, goal, max)").unwrap();
                writeln!(f, "}}").unwrap();
            }
            NESTED_TAILS.with(|n| n.set(prev));
            ALT_FORMS.with(|a| a.set(false));
            crate::ast::UNDERSCORE_NAMES.with(|u| u.set(0));
            f.push('\n');
            line += f.lines().count();
            writeln!(index, "{}\t{}\t{}\t{}", m, start, line - 1, i).unwrap();
            src.push_str(&f);
        }
        src.push_str("pub fn run(i: usize, max: usize) -> Option<Vec<Vec<LResult<DU, DE>>>> {\n    match i {\n");
        for i in lo..hi.max(lo) {
            writeln!(src, "        {} => Some(case_{}(max)),", i, i).unwrap();
        }
        src.push_str("        _ => None,\n    }\n}\n");
        std::fs::write(format!("{}/gen_{}.rs", dir, m), src)?;
        writeln!(modrs, "pub mod gen_{};", m).unwrap();
    }
    modrs.push_str("\npub fn run(i: usize, max: usize) -> Option<Vec<Vec<super::prelude::LResult<super::prelude::DU, super::prelude::DE>>>> {\n");
    for m in 0..MODULES {
        writeln!(modrs, "    if let Some(r) = gen_{}::run(i, max) {{ return Some(r); }}", m).unwrap();
    }
    modrs.push_str("    None\n}\n");
    // lterm! of every term of the term universe (C14 only; empty otherwise), in small functions
    // (one huge vec! expression takes rustc minutes to type-check)
    let lts = if id == "C14" { c14_lterm_terms() } else { vec![] };
    let mut chunk_fns = vec![];
    for (ci, chunk) in lts.chunks(12).enumerate() {
        writeln!(modrs, "\n#[allow(unused)]\nfn lterms_{}(x: &super::prelude::LTerm<super::prelude::DU, super::prelude::DE>, y: &super::prelude::LTerm<super::prelude::DU, super::prelude::DE>, out: &mut Vec<super::prelude::LTerm<super::prelude::DU, super::prelude::DE>>) {{\n    use super::prelude::*;\n    let (x, y) = (x.clone(), y.clone());", ci).unwrap();
        for t in chunk {
            writeln!(modrs, "    let t: LTerm<DU, DE> = lterm!({});\n    out.push(t);", term(t, false)).unwrap();
            let nested = with_nested_tails(true, || term(t, false));
            writeln!(modrs, "    let t: LTerm<DU, DE> = lterm!({});\n    out.push(t);", nested).unwrap();
        }
        modrs.push_str("}\n");
        chunk_fns.push(ci);
    }
    modrs.push_str("\npub fn lterms(x: &super::prelude::LTerm<super::prelude::DU, super::prelude::DE>, y: &super::prelude::LTerm<super::prelude::DU, super::prelude::DE>) -> Vec<super::prelude::LTerm<super::prelude::DU, super::prelude::DE>> {\n    let mut out = vec![];\n    let _ = (x, y);\n");
    for ci in chunk_fns {
        writeln!(modrs, "    lterms_{}(x, y, &mut out);", ci).unwrap();
    }
    modrs.push_str("    out\n}\n");
    writeln!(modrs, "pub const ID: &str = {:?};\npub const QUICK: bool = {};\npub const CASES: usize = {};", id, quick, cs.len()).unwrap();
    std::fs::write(format!("{}/mod.rs", dir), modrs)?;
    std::fs::write(format!("{}/index.tsv", dir), index)?;
    Ok(cs.len())
}
