pub mod ast;
pub mod conv;
pub mod ev;
pub mod pool;
pub mod refm;
pub mod run;
pub mod refeval;
pub mod sched;
pub mod surface;
pub mod userrel;
pub mod c03;
pub mod c04;
pub mod c09;
pub mod c10;
pub mod c11;
pub mod c12;
pub mod c18;
pub mod c19;
pub mod c20;
pub mod c21;
pub mod c22;
pub mod c23;
pub mod c24;
pub mod c_engine;
pub mod c07_long;
pub mod c_fd;
pub mod fd;
pub mod e4;
pub mod c01;
pub mod c02;
pub mod den;

/// Dispatches a property id to its check. Returns false for an unknown id.
pub fn dispatch(id: &str, ctx: &mut ev::Ctx) -> bool {
    match id {
        "C01" => c01::run(ctx),
        "C02" => c02::run(ctx),
        "C03" => c03::run(ctx),
        "C04" => c04::run(ctx),
        "C05" => c_engine::run_c05(ctx),
        "C06" => c_engine::run_c06(ctx),
        "C07" => c_engine::run_c07(ctx),
        "C08" => c_engine::run_c08(ctx),
        "C09" => c09::run(ctx),
        "C10" => c10::run(ctx),
        "C11" => c11::run(ctx),
        "C12" => c12::run(ctx),
        "C16" => c_fd::run(ctx, "C16"),
        "C17" => c_fd::run(ctx, "C17"),
        "C18" => c18::run(ctx),
        "C19" => c19::run(ctx),
        "C20" => c20::run(ctx),
        "C21" => c21::run(ctx),
        "C22" => c22::run(ctx),
        "C23" => c23::run(ctx),
        "C24" => c24::run(ctx),
        _ => return false,
    }
    true
}
