pub mod ast;
pub mod conv;
pub mod ev;
pub mod pool;
pub mod refm;
pub mod run;
pub mod sched;
pub mod c18;
