//! C09: query iteration is lazy, fused and deterministic.
//!  (a) lazy   — taking the first n answers ends within the step budget whenever n answers exist
//!               after finitely many steps, through the public iterator (term programs with
//!               loop{} producers / never-like divergers) and at solver level (E4 cases);
//!  (b) fused  — after the first None, further next() calls return None;
//!  (c) deterministic — E2: the canonical answer SEQUENCE is the same in two unscheduled runs
//!               (fresh hash keys) and under every hash-order schedule with <= d deviations.
use crate::ast::*;
use crate::c02;
use crate::den::Den;
use crate::e4;
use crate::ev::{Ctx, Violation};
use crate::fd;
use crate::pool::par_map;
use crate::refm::*;
use crate::run::{panic_site, run_query, End, Outcome};
use crate::sched;
use serde_json::{json, Value};

fn mk(kind: &str, family: &str, index: usize, sig: String, detail: String, site: String, schedule: Vec<usize>) -> Violation {
    Violation { kind: kind.into(), sig, site, detail, family: family.into(), index, schedule, data: Value::Null }
}

// ---------------------------------------------------------------------------------------------
// (a) + (b) through the public iterator

fn lazy_programs(quick: bool) -> Vec<(Program, Option<usize>, Vec<i64>)> {
    // (program, number of answers or None for infinitely many, allowed values of q)
    let q = T::V(0);
    #[derive(Clone)]
    struct Br {
        g: G,
        n: Option<usize>,
        vals: Vec<i64>,
        diverges: bool,
    }
    let eq = |k: i64| G::Eq(q.clone(), T::I(k));
    let branches: Vec<Br> = vec![
        Br { g: eq(1), n: Some(1), vals: vec![1], diverges: false },
        Br { g: G::Anyo(vec![eq(2)]), n: None, vals: vec![2], diverges: true },
        Br { g: G::Anyo(vec![G::Fail]), n: Some(0), vals: vec![], diverges: true },
        Br { g: G::Conde(vec![vec![eq(3)], vec![eq(4)]]), n: Some(2), vals: vec![3, 4], diverges: false },
        Br { g: G::Conj(vec![G::Anyo(vec![G::Succeed]), eq(5)]), n: None, vals: vec![5], diverges: true },
        Br { g: G::Closure(Box::new(G::Anyo(vec![G::Conde(vec![vec![eq(6)], vec![eq(7)]])]))), n: None, vals: vec![6, 7], diverges: true },
        Br { g: G::Fail, n: Some(0), vals: vec![], diverges: false },
        // depth-first blocks below the interleaving disjunction: a silent diverger bound by a
        // depth-first conjunction, an infinite producer whose every candidate is rejected, and a
        // productive depth-first loop
        Br { g: G::Fresh(vec![2], vec![G::Dfs(vec![G::Rel(Rel::Append, vec![T::V(2), T::list(vec![T::I(1)]), T::V(2)]), eq(8)])]), n: Some(0), vals: vec![], diverges: true },
        Br { g: G::Fresh(vec![2], vec![G::Dfs(vec![G::Conj(vec![G::Rel(Rel::Member, vec![T::I(1), T::V(2)]), G::Eq(T::V(2), T::Nil)]), eq(8)])]), n: Some(0), vals: vec![], diverges: true },
        Br { g: G::Fresh(vec![2], vec![G::Dfs(vec![G::Rel(Rel::Member, vec![T::I(1), T::V(2)]), eq(9)])]), n: None, vals: vec![9], diverges: true },
        // committed choice over a head that never answers: its solve runs the head to its first
        // answer inside one engine step, so taking exactly the answers that exist must not
        // touch it (answers delivered with different numbers of steps before them, so that the
        // step after the n-th answer falls on the start of such a goal in some combination)
        Br { g: G::Onceo(vec![G::Anyo(vec![G::Fail])]), n: Some(0), vals: vec![], diverges: true },
        Br { g: G::Conj(vec![G::Succeed, G::Onceo(vec![G::Anyo(vec![G::Fail])])]), n: Some(0), vals: vec![], diverges: true },
        Br { g: G::Fresh(vec![2], vec![G::Onceo(vec![G::Rel(Rel::Append, vec![T::V(2), T::list(vec![T::I(0)]), T::V(2)])])]), n: Some(0), vals: vec![], diverges: true },
        Br { g: G::Conda(vec![vec![G::Anyo(vec![G::Fail])], vec![G::Succeed]]), n: Some(0), vals: vec![], diverges: true },
        Br { g: G::Rel(Rel::Append, vec![T::Nil, T::list(vec![q.clone()]), T::list(vec![T::I(1)])]), n: Some(1), vals: vec![1], diverges: false },
        Br { g: G::Closure(Box::new(G::Closure(Box::new(eq(1))))), n: Some(1), vals: vec![1], diverges: false },
    ];
    let mut out = vec![];
    let ks: Vec<usize> = if quick { vec![1, 2] } else { vec![1, 2, 3] };
    for k in ks {
        for combo in e4::product(&branches, k) {
            let total: Option<usize> = combo.iter().try_fold(0usize, |acc, b| b.n.map(|n| acc + n));
            let vals: Vec<i64> = combo.iter().flat_map(|b| b.vals.clone()).collect();
            let arms: Vec<Vec<G>> = combo.iter().map(|b| vec![b.g.clone()]).collect();
            let disj = if k == 1 { combo[0].g.clone() } else { G::Conde(arms.clone()) };
            let any_div = combo.iter().any(|b| b.diverges);
            let _ = any_div;
            // top level; under fresh; after an always()-like prefix (then every answer repeats
            // forever: infinitely many if any)
            out.push((Program { nq: 1, body: vec![disj.clone()] }, total, vals.clone()));
            out.push((Program { nq: 1, body: vec![G::Fresh(vec![1], vec![G::Eq(T::V(1), T::I(0)), disj.clone()])] }, total, vals.clone()));
            let after = match total {
                Some(0) => Some(0),
                _ => None,
            };
            out.push((Program { nq: 1, body: vec![G::Anyo(vec![G::Succeed]), disj.clone()] }, after, vals.clone()));
            if k >= 2 {
                let d2 = G::Disj(combo.iter().map(|b| b.g.clone()).collect());
                out.push((Program { nq: 1, body: vec![d2] }, total, vals.clone()));
            }
        }
    }
    out
}

fn check_lazy(p: &Program, total: Option<usize>, vals: &[i64], index: usize) -> (Vec<Violation>, &'static str) {
    crate::ev::progress("c09-lazy", index, &Value::Null);
    let mut viols = vec![];
    let sig = p.to_string();
    let nvars = crate::run::nvars_of(p.nq, &p.body);
    let want = match total {
        Some(n) => n.min(4),
        None => 4,
    };
    // taking `want` answers must end within the budget
    let out = run_query(nvars, p, want, 200_000);
    if let End::Panic(m) = &out.end {
        viols.push(mk("panic", "c09-lazy", index, sig, m.clone(), panic_site(m), vec![]));
        return (viols, "panic");
    }
    if out.answers.len() < want {
        viols.push(mk(
            "not-lazy",
            "c09-lazy",
            index,
            sig.clone(),
            format!("asked for {} answers ({} exist); got {} and the run ended with {:?} after {} steps", want, total.map(|n| n.to_string()).unwrap_or("infinitely many".into()), out.answers.len(), out.end, out.steps),
            String::new(),
            vec![],
        ));
    }
    for a in &out.answers {
        match &a.terms[0] {
            T::I(k) if vals.contains(k) => {}
            other => viols.push(mk("invented-answer", "c09-lazy", index, sig.clone(), format!("answer q = {} is not an answer of the program (allowed {:?})", other, vals), String::new(), vec![])),
        }
    }
    // a finite program must end, with exactly `total` answers, and stay ended (fused is checked
    // inside run_query: three more next() calls after the first None)
    if let Some(n) = total {
        let diverging_search = p.to_string().contains("loop") || p.to_string().contains("dfs") || p.to_string().contains("onceo") || p.to_string().contains("conda");
        if !diverging_search {
            let all = run_query(nvars, p, 1000, 200_000);
            match &all.end {
                End::Exhausted => {
                    if all.answers.len() != n {
                        viols.push(mk("answer-count", "c09-lazy", index, sig.clone(), format!("{} answers, expected {}", all.answers.len(), n), String::new(), vec![]));
                    }
                }
                End::Panic(m) if m.contains("not fused") => viols.push(mk("not-fused", "c09-lazy", index, sig.clone(), m.clone(), String::new(), vec![])),
                other => viols.push(mk("no-termination", "c09-lazy", index, sig.clone(), format!("{:?}", other), String::new(), vec![])),
            }
            return (viols, "finite");
        }
    }
    (viols, if total.is_none() { "infinite" } else { "finite-answers-infinite-search" })
}

// ---------------------------------------------------------------------------------------------
// (c) determinism under schedules

const SITES: [&str; 8] = sched::ALL_SITES;

/// Canonical text of an answer sequence: variable-variable pairs oriented, constraint sets sorted.
fn canon_seq(out: &Outcome) -> Vec<String> {
    out.answers
        .iter()
        .map(|a| {
            let mut cons: Vec<Vec<(T, T)>> = a
                .cons
                .iter()
                .map(|d| {
                    let mut d: Vec<(T, T)> = d.iter().map(|(x, y)| if y.is_var() && x.is_var() && y < x { (y.clone(), x.clone()) } else { (x.clone(), y.clone()) }).collect();
                    d.sort();
                    d
                })
                .collect();
            cons.sort();
            format!("{:?} | {:?}", a.terms.iter().map(|t| t.to_string()).collect::<Vec<_>>(), cons)
        })
        .collect()
}

fn check_det(den: Option<&Den>, p: &Program, family: &str, index: usize, d: usize) -> (Vec<Violation>, u64, usize, bool) {
    crate::ev::progress(family, index, &Value::Null);
    let nvars = crate::run::nvars_of(p.nq, &p.body);
    let sig = p.to_string();
    let mut viols = vec![];
    let run = || {
        let out = run_query(nvars, p, 200, 2_000_000);
        let seq = canon_seq(&out);
        let sizes: Vec<usize> = out.answers.iter().map(|a| a.cons.len()).collect();
        let bits: Vec<Vec<u64>> = match den {
            Some(den) => out.answers.iter().map(|a| den.bits(&ansset_of_observed(&a.terms, &a.cons)).as_ref().clone()).collect(),
            None => vec![],
        };
        (seq, bits, format!("{:?} constraint-set sizes {:?}", out.end, sizes))
    };
    // two unscheduled runs: every HashMap/HashSet gets fresh random keys
    let base = run();
    let again = run();
    let ex = sched::explore(&SITES, d, 4000, &run);
    if let Some(e) = &ex.error {
        viols.push(mk("machinery", family, index, sig.clone(), e.clone(), String::new(), vec![]));
    }
    let syntactic_only = false;
    let mut compare = |label: String, schedule: Vec<usize>, other: &(Vec<String>, Vec<Vec<u64>>, String)| {
        if other.0 == base.0 && other.2 == base.2 {
            return;
        }
        viols.push(mk(
            "nondeterministic",
            family,
            index,
            sig.clone(),
            format!("{}: answers {:?} ({}) vs first run {:?} ({})", label, other.0, other.2, base.0, base.2),
            String::new(),
            schedule,
        ));
    };
    compare("second unscheduled run".into(), vec![], &again);
    for (schedule, o) in &ex.outcomes {
        compare(format!("schedule {:?}", schedule), schedule.clone(), o);
    }
    if base.2.contains("Panic") {
        // panics are C23's business; determinism is judged on the outcomes above
    }
    (viols, ex.schedules + 2, ex.max_points, syntactic_only)
}

fn diseq_programs(quick: bool) -> Vec<Program> {
    // multi-binding disequalities and chains that exercise subsumption/normalisation order
    let x = T::V(0);
    let y = T::V(1);
    let z = T::V(2);
    let ts: Vec<T> = vec![
        x.clone(),
        y.clone(),
        z.clone(),
        T::I(5),
        T::I(6),
        T::list(vec![x.clone(), y.clone()]),
        T::list(vec![y.clone(), z.clone()]),
        T::list(vec![T::I(5), T::I(6)]),
        T::list(vec![x.clone(), T::I(5)]),
        T::list(vec![T::I(6), z.clone()]),
    ];
    let mut neqs: Vec<G> = vec![];
    for i in 0..ts.len() {
        for j in (i + 1)..ts.len() {
            let mut s = Subst::new();
            if let Some(n) = s.unify(&ts[i], &ts[j]) {
                if n > 0 {
                    neqs.push(G::Neq(ts[i].clone(), ts[j].clone()));
                }
            }
        }
    }
    let eqs: Vec<G> = vec![G::Eq(x.clone(), y.clone()), G::Eq(y.clone(), T::I(5)), G::Eq(z.clone(), T::list(vec![x.clone()])), G::Succeed];
    let mut out = vec![];
    let stride = if quick { 3 } else { 1 };
    let mut c = 0;
    for a in 0..neqs.len() {
        for b in (a + 1)..neqs.len() {
            for cc in (b + 1)..neqs.len() {
                c += 1;
                if c % stride != 0 {
                    continue;
                }
                for e in &eqs {
                    out.push(Program { nq: 3, body: vec![neqs[a].clone(), neqs[b].clone(), neqs[cc].clone(), e.clone()] });
                }
            }
        }
    }
    // one strong disequality that subsumes MANY stored weaker ones (4..6), all variables in the
    // answer: whichever order the store is iterated in, every weaker one must go
    for k in 4..=6u32 {
        let weak: Vec<G> = (1..=k).map(|i| G::Neq(T::list(vec![x.clone(), T::V(i)]), T::list(vec![T::I(1), T::I(1)]))).collect();
        let strong = G::Neq(x.clone(), T::I(1));
        let mut a = weak.clone();
        a.push(strong.clone());
        out.push(Program { nq: k + 1, body: a });
        let mut b = vec![strong.clone()];
        b.extend(weak.iter().cloned());
        out.push(Program { nq: k + 1, body: b });
        let mut c2 = weak.clone();
        c2.insert(2, strong.clone());
        out.push(Program { nq: k + 1, body: c2 });
        // the strong one arises from a binding: [x, w] != [1, 2] with w == 2 afterwards
        let mut d = weak.clone();
        d.push(G::Neq(T::list(vec![x.clone(), T::V(1)]), T::list(vec![T::I(1), T::I(2)])));
        d.push(G::Eq(T::V(1), T::I(2)));
        out.push(Program { nq: k + 1, body: d });
    }
    out
}

/// Hidden finite-domain variables (labelled only by the final witness search, in the iteration
/// order of the domain store) that a TREE constraint connects to the answer: which witness the
/// search commits to must not show in the answer.
fn hidden_fd_tree_programs() -> Vec<Program> {
    use crate::ast::{Dom, FdKind};
    let q = T::V(0);
    let r = T::V(1);
    let a = T::V(2);
    let b = T::V(3);
    let c = T::V(4);
    let mut out = vec![];
    let doms2 = G::InFd(vec![a.clone(), b.clone()], Dom::Sparse(vec![1, 2]));
    let doms3 = G::InFd(vec![a.clone(), b.clone(), c.clone()], Dom::Range(1, 3));
    let links: Vec<Vec<G>> = vec![
        vec![G::Neq(q.clone(), a.clone())],
        vec![G::Neq(q.clone(), T::list(vec![a.clone(), b.clone()]))],
        vec![G::Neq(T::list(vec![q.clone(), r.clone()]), T::list(vec![a.clone(), b.clone()]))],
        vec![G::Neq(q.clone(), b.clone()), G::Eq(r.clone(), T::I(7))],
        vec![G::Neq(T::list(vec![q.clone(), a.clone()]), T::list(vec![T::I(5), b.clone()]))],
    ];
    for l in &links {
        for sym in [G::Fd(FdKind::Diseq, vec![a.clone(), b.clone()]), G::DistinctFd(T::list(vec![a.clone(), b.clone()])), G::Fd(FdKind::Plus, vec![a.clone(), b.clone(), T::I(3)])] {
            let mut v1 = vec![doms2.clone(), sym.clone()];
            v1.extend(l.iter().cloned());
            out.push(Program { nq: 2, body: vec![G::Fresh(vec![2, 3, 4], v1)] });
            let mut v2: Vec<G> = l.clone();
            v2.push(sym.clone());
            v2.push(doms2.clone());
            out.push(Program { nq: 2, body: vec![G::Fresh(vec![2, 3, 4], v2)] });
        }
        let mut v3 = vec![doms3.clone(), G::DistinctFd(T::list(vec![a.clone(), b.clone(), c.clone()]))];
        v3.extend(l.iter().cloned());
        out.push(Program { nq: 2, body: vec![G::Fresh(vec![2, 3, 4], v3)] });
    }
    out
}

pub fn run(ctx: &mut Ctx) {
    let quick = ctx.quick();
    let d = if quick { 1 } else { 2 };
    ctx.set("rule", json!("(a)/(b): every disjunction of 1-3 branches from {finite goal, loop{} producer, loop{false} diverger, nested conde, producer behind a closure} at top level, under fresh, after an always-like prefix, as conde and as binary Disj, through the public Query/ResultIterator: take(n) must deliver n answers within the step budget whenever n exist, finite programs end with exactly their answers and stay ended (3 further next() calls). (c) E2: FD programs with >= 2 constraints, hidden-FD-variable programs and multi-binding disequality programs are run twice unscheduled (fresh hash keys) and under every schedule of all 8 hooked iteration sites with <= d deviations plus all-reversed; the canonical answer sequence must be identical. distinct_nontrivial = programs whose exploration had >= 2 schedules."));
    ctx.set("deviation_bound", json!(d));
    // (a) (b)
    let lazy = lazy_programs(quick);
    let sel: Vec<usize> = match &ctx.replay {
        Some(r) if r.family == "c09-lazy" => vec![r.index],
        Some(_) => vec![],
        None => (0..lazy.len()).collect(),
    };
    let res = par_map(&sel, |_, i| check_lazy(&lazy[*i].0, lazy[*i].1, &lazy[*i].2, *i));
    for (vs, class) in res {
        ctx.hist(&format!("lazy:{}", class), 1);
        for v in vs {
            ctx.violation(v);
        }
    }
    ctx.add("evaluations", sel.len() as u64);
    // solver level: E4 cases with infinite leaves, take(n)
    let mut e4_cases = 0u64;
    if ctx.replay.is_none() {
        let scripts: Vec<e4::Script> = ["A", "F", "DF", "N", "AAF", ""].iter().map(|s| e4::Script::parse(s)).collect();
        let mut cases = vec![];
        for a in &scripts {
            for b in &scripts {
                for enc in [e4::Enc::Pause, e4::Enc::Iter] {
                    for tree in [e4::Tr::Conde(vec![e4::Tr::Leaf(0), e4::Tr::Leaf(1)]), e4::Tr::Disj(vec![e4::Tr::Leaf(0), e4::Tr::Leaf(1)]), e4::Tr::Conj(vec![e4::Tr::Leaf(0), e4::Tr::Leaf(1)])] {
                        cases.push(e4::Case { tree, leaves: vec![(a.clone(), enc), (b.clone(), enc)] });
                    }
                }
            }
        }
        let res = par_map(&cases, |i, c| {
            // number of answers available: reference with infinite cut
            let mut re = e4::RefEval::new(c);
            let avail = re.answers(&c.tree, &vec![]).len();
            let silent_first = matches!(c.tree, e4::Tr::Conj(_)) && c.leaves[0].0.tail == e4::Tail::Diverge && c.leaves[0].0.answers() == Some(0);
            let want = avail.min(3);
            let out = e4::run_case(c, false, false, want, 100_000);
            let mut v = vec![];
            if out.answers.len() < want && !silent_first {
                v.push(mk("not-lazy", "c09-e4", i, c.to_string(), format!("asked for {} answers, got {}: {:?} after {} steps", want, out.answers.len(), out.stop, out.steps), String::new(), vec![]));
            }
            if !out.fused_ok {
                v.push(mk("not-fused", "c09-e4", i, c.to_string(), "Some after None".into(), String::new(), vec![]));
            }
            v
        });
        e4_cases = cases.len() as u64;
        for vs in res {
            for v in vs {
                ctx.violation(v);
            }
        }
    }
    ctx.add("evaluations", e4_cases);
    // (c)
    let den3 = Den::new(c02::universe3());
    let mut families: Vec<(&str, Vec<Program>, bool)> = vec![
        ("c09-fd-t2", fd::tier2(quick), false),
        ("c09-fd-t3", fd::tier3(quick), false),
        ("c09-diseq", diseq_programs(quick), true),
        ("c09-fd-hidden-tree", hidden_fd_tree_programs(), false),
    ];
    if !quick {
        families.push(("c09-c02e3", c02::e3_programs(true), false));
    }
    let mut schedules = 0u64;
    let mut max_points = 0usize;
    let mut nontrivial = 0u64;
    let mut programs = 0u64;
    for (name, progs, use_den) in &families {
        let sel: Vec<usize> = match &ctx.replay {
            Some(r) if r.family == *name => vec![r.index],
            Some(_) => vec![],
            None => (0..progs.len()).collect(),
        };
        let res = par_map(&sel, |_, i| check_det(if *use_den { Some(&den3) } else { None }, &progs[*i], name, *i, d));
        for (vs, s, mp, syn) in res {
            schedules += s;
            max_points = max_points.max(mp);
            programs += 1;
            if s > 3 {
                nontrivial += 1;
                ctx.hist("programs-with-choice-points", 1);
            }
            if syn {
                ctx.hist("syntactic-only-differences", 1);
            }
            for v in vs {
                if v.kind == "machinery" {
                    ctx.machinery_errors.push(format!("{} [{} #{} {}]", v.detail, v.family, v.index, v.sig));
                } else {
                    ctx.violation(v);
                }
            }
        }
        ctx.hist(&format!("{}:programs", name), sel.len() as u64);
        if let Some(p) = progs.get(progs.len() / 2) {
            ctx.sample(json!({"family": name, "program": p.to_string()}));
        }
    }
    for (p, n, _) in lazy.iter().step_by((lazy.len() / 3).max(1)).take(3) {
        ctx.sample(json!({"family": "c09-lazy", "program": p.to_string(), "answers": n}));
    }
    ctx.add("evaluations", schedules);
    ctx.set("schedules", json!(schedules));
    ctx.set("max_choice_points", json!(max_points));
    ctx.set("states", json!(programs + sel.len() as u64 + e4_cases));
    ctx.set("transitions", json!(schedules + sel.len() as u64 + e4_cases));
    ctx.set("traces_validated_against_impl", json!(schedules + sel.len() as u64 + e4_cases));
    ctx.set("distinct_nontrivial", json!(nontrivial));
    ctx.require_nonzero("lazy:infinite");
    ctx.require_nonzero("lazy:finite");
    ctx.require_nonzero("programs-with-choice-points");
    ctx.assume("'a fresh process with a different hash seed' is covered by enumerating iteration orders at the hooked sites (a superset of what any seed can produce up to the deviation bound), plus two unscheduled in-process runs with fresh random hash keys; a second process cannot be steered to a chosen order");
    ctx.assume("laziness is bounded: 200000 engine steps for 4 answers");
}
