//! C10: search branches are isolated from each other.
//! E3 (metamorphic) x E2: answers(P, conde{A, B}) == answers(P, A) + answers(P, B) as multisets,
//! for every pair of branch goals of an alphabet under every prefix; observed at solver level
//! with an instrumented User type so that user state is part of the observation.
use crate::ast::*;
use crate::c22::{CountingUser, CE, CU};
use crate::conv::*;
use crate::ev::{Ctx, Violation};
use crate::pool::par_map;
use crate::run::{guarded, panic_site, End};
use crate::sched;
use proto_vulcan::goal::Goal;
use proto_vulcan::lterm::LTerm;
use proto_vulcan::solver::Solver;
use proto_vulcan::state::State;
use proto_vulcan::verif;
use serde_json::{json, Value};
use std::rc::Rc;

fn branch_goals() -> Vec<G> {
    let x = T::V(0);
    let y = T::V(1);
    let z = T::V(2);
    vec![
        G::Eq(x.clone(), T::I(1)),
        G::Eq(y.clone(), T::I(1)),
        G::Eq(x.clone(), T::I(2)),
        G::Eq(x.clone(), y.clone()),
        G::Eq(z.clone(), T::list(vec![x.clone(), y.clone()])),
        G::Neq(x.clone(), T::I(1)),
        G::Neq(T::list(vec![x.clone(), y.clone()]), T::list(vec![T::I(1), T::I(2)])),
        G::Neq(x.clone(), y.clone()),
        G::InFd(vec![x.clone()], Dom::Sparse(vec![1, 2])),
        G::InFd(vec![y.clone()], Dom::Range(2, 3)),
        G::Fd(FdKind::Lt, vec![x.clone(), y.clone()]),
        G::Fd(FdKind::Lte, vec![y.clone(), x.clone()]),
        G::Fd(FdKind::Plus, vec![x.clone(), y.clone(), T::I(3)]),
        G::Fd(FdKind::Diseq, vec![x.clone(), y.clone()]),
        G::DistinctFd(T::list(vec![x.clone(), y.clone()])),
        G::Fd(FdKind::Times, vec![x.clone(), T::I(2), y.clone()]),
        G::PlusZ(x.clone(), T::I(1), y.clone()),
        G::TimesZ(x.clone(), T::I(2), y.clone()),
        G::Probe(0),
        G::Probe(1),
        G::Conj(vec![G::Probe(0), G::Eq(x.clone(), T::I(1))]),
        G::Conde(vec![vec![G::Eq(x.clone(), T::I(1))], vec![G::Eq(x.clone(), T::I(3))]]),
        G::Project(vec![0], vec![G::Eq(y.clone(), T::V(0))]),
        G::Fail,
        // unifications that fail PART-WAY: a tentative binding (x -> 2; x -> 3, y -> 3) has been
        // made when the mismatch is found, and dies with this branch only
        G::Eq(T::list(vec![x.clone(), T::I(1)]), T::list(vec![T::I(2), T::I(3)])),
        G::Eq(T::list(vec![x.clone(), y.clone(), T::I(1)]), T::list(vec![T::I(3), T::I(3), T::I(2)])),
    ]
}

fn prefixes() -> Vec<Vec<G>> {
    let x = T::V(0);
    let y = T::V(1);
    let z = T::V(2);
    vec![
        vec![],
        vec![G::InFd(vec![x.clone(), y.clone()], Dom::Range(0, 3))],
        vec![G::InFd(vec![x.clone(), y.clone(), z.clone()], Dom::Range(1, 3)), G::DistinctFd(T::list(vec![x.clone(), y.clone(), z.clone()]))],
        vec![G::Neq(x.clone(), y.clone()), G::Neq(T::list(vec![x.clone(), z.clone()]), T::list(vec![T::I(1), T::I(1)]))],
        vec![G::PlusZ(x.clone(), y.clone(), z.clone()), G::Probe(1)],
        vec![G::InFd(vec![x.clone(), y.clone()], Dom::Range(0, 3)), G::Fd(FdKind::Plus, vec![x.clone(), y.clone(), z.clone()]), G::InFd(vec![z.clone()], Dom::Range(2, 4))],
        vec![G::Eq(x.clone(), T::I(1)), G::InFd(vec![y.clone()], Dom::Range(0, 3))],
        // a stored constraint plus bindings that some branch goals merely re-state
        vec![G::Neq(z.clone(), T::I(7)), G::Eq(x.clone(), T::I(1)), G::Eq(y.clone(), T::I(1))],
    ]
}

type Obs = Vec<String>;

/// Runs `body` (query over x, y, z) and returns the sorted multiset of observed final states.
fn observe(body: &[G]) -> Result<Obs, End> {
    verif::set_budget(3_000_000);
    let mut out: Vec<String> = vec![];
    let r = guarded(|| {
        let mut b: Builder<CU, CE> = Builder::new(3);
        let p0: ProbeFn<CU, CE> = Rc::new(|_env, mut st: State<CU, CE>| {
            st.user_state.trail.push(100);
            Some(st)
        });
        let p1: ProbeFn<CU, CE> = Rc::new(|_env, mut st: State<CU, CE>| {
            st.user_state.trail.push(200);
            Some(st)
        });
        b.probes = vec![p0, p1];
        let (qvars, goal): (Vec<LTerm<CU, CE>>, Goal<CU, CE>) = query_goal(&b, 3, body);
        let mut solver: Solver<CU, CE> = Solver::new((), false);
        let mut stream = solver.start(&goal, State::new(CountingUser::default()));
        let mut n = 0;
        while let Some(st) = solver.next(&mut stream) {
            let mut dec: Dec<CU, CE> = Dec::new(None);
            let terms: Vec<String> = qvars.iter().map(|q| dec.dec(&st.smap_ref().walk_star(q)).to_string()).collect();
            let purified = st.cstore_ref().clone().purify(st.smap_ref()).normalize();
            let mut cons: Vec<String> = vec![];
            for c in raw_iter(&purified) {
                if let Some(tree) = c.downcast_ref::<proto_vulcan::relation::diseq::DisequalityConstraint<CU, CE>>() {
                    let mut d: Vec<String> = std::ops::Deref::deref(tree.smap_ref())
                        .iter()
                        .map(|(k, v)| format!("{}!={}", dec.dec(&st.smap_ref().walk_star(k)), dec.dec(&st.smap_ref().walk_star(v))))
                        .collect();
                    d.sort();
                    cons.push(d.join("|"));
                }
            }
            cons.sort();
            out.push(format!("{:?} where {:?} user-trail {:?} open-constraints {}", terms, cons, st.user_state.trail, st.user_state.with as i64 - st.user_state.take as i64));
            n += 1;
            if n > 300 {
                break;
            }
        }
        End::Exhausted
    });
    verif::set_budget(u64::MAX);
    match r {
        Ok(End::Exhausted) => {
            out.sort();
            Ok(out)
        }
        Ok(e) | Err(e) => Err(e),
    }
}

/// The same observation through the public query interface with the library's DefaultUser (its
/// default hooks, which the instrumented user type overrides).
fn observe_default(body: &[G]) -> Result<Obs, End> {
    use crate::run::{DE, DU};
    let noop = || -> ProbeFn<DU, DE> { Rc::new(|_env, st: State<DU, DE>| Some(st)) };
    let p = Program { nq: 3, body: body.to_vec() };
    let out = crate::run::run_query_with::<DU, DE>(3, &p, proto_vulcan::user::DefaultUser::new(), (), 300, 3_000_000, vec![noop(), noop()]);
    match out.end {
        End::Exhausted => {
            let mut v: Vec<String> = out.answers.iter().map(|a| a.to_string()).collect();
            v.sort();
            Ok(v)
        }
        other => Err(other),
    }
}

#[derive(Clone)]
struct CaseC10 {
    prefix: Vec<G>,
    branches: Vec<G>,
    nested: bool,
    /// goals after the disjunction: ONE goal object entered by the states of every branch
    suffix: Vec<G>,
}

impl CaseC10 {
    fn combined(&self) -> Vec<G> {
        let mut b = self.prefix.clone();
        if self.nested && self.branches.len() == 3 {
            b.push(G::Conde(vec![vec![self.branches[0].clone()], vec![G::Conde(vec![vec![self.branches[1].clone()], vec![self.branches[2].clone()]])]]));
        } else {
            b.push(G::Conde(self.branches.iter().map(|g| vec![g.clone()]).collect()));
        }
        b.extend(self.suffix.iter().cloned());
        b
    }
    fn alone(&self, i: usize) -> Vec<G> {
        let mut b = self.prefix.clone();
        b.push(self.branches[i].clone());
        b.extend(self.suffix.iter().cloned());
        b
    }
    fn text(&self) -> String {
        Program { nq: 3, body: self.combined() }.to_string()
    }
}

fn cases(quick: bool) -> Vec<CaseC10> {
    let bg = branch_goals();
    let mut out = vec![];
    for p in prefixes() {
        for i in 0..bg.len() {
            for j in 0..bg.len() {
                if i == j {
                    continue;
                }
                // ordered pairs: the first branch runs first and could leak into the second
                out.push(CaseC10 { prefix: p.clone(), branches: vec![bg[i].clone(), bg[j].clone()], nested: false, suffix: vec![] });
            }
        }
        // triples (strided), flat and nested
        let stride = if quick { 37 } else { 2 };
        let mut c = 0;
        for i in 0..bg.len() {
            for j in 0..bg.len() {
                for k in 0..bg.len() {
                    if i == j || j == k || i == k {
                        continue;
                    }
                    c += 1;
                    if c % stride != 0 {
                        continue;
                    }
                    out.push(CaseC10 { prefix: p.clone(), branches: vec![bg[i].clone(), bg[j].clone(), bg[k].clone()], nested: c % 2 == 0, suffix: vec![] });
                }
            }
        }
    }
    // a shared continuation: the same goal object (a closure whose body projects, a delayed
    // binding, a propagator over all three variables, a nested disjunction) is entered once per
    // branch state; what one entry does to it must not be seen by the next
    for p in prefixes() {
        for sfx in suffixes() {
            for i in 0..bg.len() {
                for j in 0..bg.len() {
                    if i != j {
                        out.push(CaseC10 { prefix: p.clone(), branches: vec![bg[i].clone(), bg[j].clone()], nested: false, suffix: sfx.clone() });
                    }
                }
            }
        }
    }
    out
}

fn suffixes() -> Vec<Vec<G>> {
    let x = T::V(0);
    let y = T::V(1);
    let z = T::V(2);
    vec![
        vec![G::Closure(Box::new(G::Project(vec![0], vec![G::Eq(z.clone(), T::list(vec![T::V(0)]))])))],
        vec![G::Closure(Box::new(G::Closure(Box::new(G::Eq(z.clone(), x.clone())))))],
        vec![G::InFd(vec![x.clone(), y.clone(), z.clone()], Dom::Range(0, 3)), G::DistinctFd(T::list(vec![x.clone(), y.clone(), z.clone()]))],
        vec![G::Closure(Box::new(G::Conde(vec![vec![G::Project(vec![1], vec![G::Eq(z.clone(), T::V(1))])], vec![G::Neq(z.clone(), x.clone())]])))],
    ]
}

fn check(c: &CaseC10, index: usize, d: usize) -> (Vec<Violation>, u64, bool) {
    crate::ev::progress("c10", index, &Value::Null);
    let sig = c.text();
    let mut viols = vec![];
    // expected: multiset union of the branches run alone (canonical schedule)
    let mut expected: Vec<String> = vec![];
    let mut alone_err = false;
    for i in 0..c.branches.len() {
        match observe(&c.alone(i)) {
            Ok(o) => expected.extend(o),
            Err(End::Panic(_)) => alone_err = true,
            Err(_) => alone_err = true,
        }
    }
    expected.sort();
    let body = c.combined();
    let f = || observe(&body);
    let ex = sched::explore(&["run_constraints", "process_extension_fd", "with_cstore", "normalize"], d, 300, &f);
    let mut nontrivial = false;
    for (schedule, r) in &ex.outcomes {
        let mk = |kind: &str, detail: String, site: String| Violation { kind: kind.into(), sig: sig.clone(), site, detail, family: "c10".into(), index, schedule: schedule.clone(), data: Value::Null };
        match r {
            Ok(got) => {
                if alone_err {
                    continue;
                }
                if *got != expected {
                    let extra: Vec<&String> = got.iter().filter(|g| !expected.contains(g)).collect();
                    let missing: Vec<&String> = expected.iter().filter(|g| !got.contains(g)).collect();
                    viols.push(mk("branches-interfere", format!("combined run has {} answers, the branches alone {}; only combined: {:?}; only alone: {:?}", got.len(), expected.len(), extra, missing), String::new()));
                } else if got.len() >= 2 {
                    nontrivial = true;
                }
            }
            Err(End::Panic(m)) => {
                if !alone_err {
                    viols.push(mk("panic-only-combined", m.clone(), panic_site(m)));
                }
            }
            Err(other) => viols.push(mk("no-termination", format!("{:?}", other), String::new())),
        }
    }
    // the same comparison with DefaultUser through the public iterator (canonical schedule)
    let mut exp_d: Vec<String> = vec![];
    let mut alone_ok = true;
    for i in 0..c.branches.len() {
        match observe_default(&c.alone(i)) {
            Ok(o) => exp_d.extend(o),
            Err(_) => alone_ok = false,
        }
    }
    exp_d.sort();
    if alone_ok {
        let mk = |kind: &str, detail: String, site: String| Violation { kind: kind.into(), sig: sig.clone(), site, detail, family: "c10".into(), index, schedule: vec![], data: Value::Null };
        match observe_default(&body) {
            Ok(got) => {
                if got != exp_d {
                    viols.push(mk("branches-interfere", format!("with DefaultUser: combined run {:?}; the branches alone {:?}", got, exp_d), String::new()));
                }
            }
            Err(End::Panic(m)) => viols.push(mk("panic-only-combined", format!("with DefaultUser: {}", m), panic_site(&m))),
            Err(other) => viols.push(mk("no-termination", format!("with DefaultUser: {:?}", other), String::new())),
        }
    }
    (viols, ex.schedules + 2 * c.branches.len() as u64 + 1, nontrivial)
}

pub fn run(ctx: &mut Ctx) {
    let quick = ctx.quick();
    let d = if quick { 0 } else { 1 };
    ctx.set("rule", json!("E3 metamorphic x E2: for 7 prefixes (none, FD domains, distinctfd over three variables, disequalities, a CLP(Z) constraint with a user-state update, an FD sum, a binding) and every ordered pair (and a stride of triples, flat and nested) of 26 branch goals (incl. two unifications that fail part-way, after a tentative binding), alone and followed by one of 4 shared continuations (a closure whose body projects x, a doubly delayed binding, domains + distinctfd over all three variables, a closure around a disjunction of a project and a disequality) that the states of both branches enter (bindings, disequalities, domain narrowing, FD propagators incl. distinctfd whose shared constraint object is updated on binding, CLP(Z), user-state updates through fngoal, nested conde, project, fail): the multiset of final states of `prefix, conde { A, B }` (reified query terms, reported disequalities, the per-branch user trail and the open-constraint counter of an instrumented User) equals the union of the branches run alone from the same prefix; the same comparison is repeated through the public iterator with the library's DefaultUser (its default hooks). distinct_nontrivial = cases with >= 2 combined answers."));
    ctx.set("deviation_bound", json!(d));
    let cs = cases(quick);
    let sel: Vec<usize> = match &ctx.replay {
        Some(r) if r.family == "c10" => vec![r.index],
        Some(_) => vec![],
        None => (0..cs.len()).collect(),
    };
    let res = par_map(&sel, |_, i| check(&cs[*i], *i, d));
    let mut evals = 0u64;
    let mut nontrivial = 0u64;
    for (vs, n, nt) in res {
        evals += n;
        if nt {
            nontrivial += 1;
            ctx.hist("cases-with-2plus-answers", 1);
        }
        for v in vs {
            ctx.violation(v);
        }
    }
    ctx.hist("cases", sel.len() as u64);
    for c in cs.iter().step_by((cs.len() / 4).max(1)).take(4) {
        ctx.sample(json!({"case": c.text()}));
    }
    ctx.set("evaluations", json!(evals));
    ctx.set("states", json!(sel.len()));
    ctx.set("transitions", json!(evals));
    ctx.set("traces_validated_against_impl", json!(evals));
    ctx.set("distinct_nontrivial", json!(nontrivial));
    ctx.require_nonzero("cases-with-2plus-answers");
    ctx.assume("the oracle is differential (combined vs separate runs of the same engine): it judges isolation, not the correctness of each branch goal");
}
