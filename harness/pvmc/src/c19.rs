//! C19: CLP(Z) plusz / timesz constrain integers exactly.
//! E3: every operand pattern (aliasing, constants) x every groundness pattern x every statement
//! order, and chains of two constraints; oracle = integer arithmetic (R6).
use crate::ast::*;
use crate::ev::{Ctx, Violation};
use crate::fd::permutations;
use crate::pool::par_map;
use crate::run::{panic_site, run_query, End};
use serde_json::{json, Value};
use std::collections::BTreeMap;

fn values(level: u8) -> Vec<i64> {
    match level {
        0 => vec![-2, 0, 1, 3],
        1 => vec![-3, -2, 0, 1, 2, 6],
        _ => vec![-4, -3, -2, -1, 0, 1, 2, 6],
    }
}

#[derive(Clone, Debug)]
struct Con {
    times: bool,
    ops: [T; 3],
}

fn goal_of(c: &Con) -> G {
    if c.times {
        G::TimesZ(c.ops[0].clone(), c.ops[1].clone(), c.ops[2].clone())
    } else {
        G::PlusZ(c.ops[0].clone(), c.ops[1].clone(), c.ops[2].clone())
    }
}

/// Reference: propagate explicit bindings through the constraints.
/// Returns None for failure, Some(bindings) otherwise.
fn reference(cons: &[Con], explicit: &BTreeMap<u32, i64>) -> Option<BTreeMap<u32, i64>> {
    let mut b = explicit.clone();
    loop {
        let mut changed = false;
        for c in cons {
            let val = |t: &T, b: &BTreeMap<u32, i64>| -> Option<i64> {
                match t {
                    T::I(n) => Some(*n),
                    T::V(i) => b.get(i).copied(),
                    _ => None,
                }
            };
            let v: Vec<Option<i64>> = c.ops.iter().map(|t| val(t, &b)).collect();
            let ground = v.iter().filter(|x| x.is_some()).count();
            if ground == 3 {
                let (u, w2, w) = (v[0].unwrap(), v[1].unwrap(), v[2].unwrap());
                let ok = if c.times { u * w2 == w } else { u + w2 == w };
                if !ok {
                    return None;
                }
            } else if ground == 2 {
                let pos = v.iter().position(|x| x.is_none()).unwrap();
                let var = match &c.ops[pos] {
                    T::V(i) => *i,
                    _ => unreachable!(),
                };
                let sol: Option<Option<i64>> = if !c.times {
                    // u + v = w
                    Some(Some(match pos {
                        0 => v[2].unwrap() - v[1].unwrap(),
                        1 => v[2].unwrap() - v[0].unwrap(),
                        _ => v[0].unwrap() + v[1].unwrap(),
                    }))
                } else {
                    match pos {
                        2 => Some(Some(v[0].unwrap() * v[1].unwrap())),
                        _ => {
                            let other = if pos == 0 { v[1].unwrap() } else { v[0].unwrap() };
                            let w = v[2].unwrap();
                            if other == 0 {
                                if w == 0 {
                                    Some(None) // every integer works: stays constrained
                                } else {
                                    None // no solution
                                }
                            } else if w % other == 0 {
                                Some(Some(w / other))
                            } else {
                                None
                            }
                        }
                    }
                };
                match sol {
                    None => return None,
                    Some(None) => {}
                    Some(Some(val)) => {
                        b.insert(var, val);
                        changed = true;
                    }
                }
            }
        }
        if !changed {
            return Some(b);
        }
    }
}

struct CaseZ {
    program: Program,
    cons: Vec<Con>,
    explicit: BTreeMap<u32, i64>,
    /// some constraint has the same variable in two positions: when fewer than two operand
    /// positions are ground the property does not say what happens, only soundness is judged
    aliased: bool,
    /// (operand variable, partner variable): unified with each other by a separate `==`
    partner: Option<(u32, u32)>,
}

fn cases(level: u8) -> Vec<CaseZ> {
    let quick = level == 0;
    let vars = [T::V(0), T::V(1), T::V(2)];
    let mut operand_choices: Vec<T> = vars.to_vec();
    for v in values(level) {
        operand_choices.push(T::I(v));
    }
    let mut out = vec![];
    for times in [false, true] {
        for pat in crate::e4::product(&operand_choices, 3) {
            let con = Con { times, ops: [pat[0].clone(), pat[1].clone(), pat[2].clone()] };
            let mut used: Vec<u32> = vec![];
            for t in &pat {
                if let T::V(i) = t {
                    if !used.contains(i) {
                        used.push(*i);
                    }
                }
            }
            // normalise: variables must be used in order x, y, z to avoid symmetric duplicates
            if used.iter().enumerate().any(|(k, v)| *v != k as u32) {
                continue;
            }
            let aliased = pat.iter().filter(|t| t.is_var()).count() > used.len();
            // groundness patterns: each used variable unbound or bound to one of the values
            let mut opts: Vec<Option<i64>> = vec![None];
            opts.extend(values(level).iter().map(|v| Some(*v)));
            let vals: Vec<Option<i64>> = if quick { vec![None, Some(-2), Some(0), Some(3)] } else { opts };
            for asg in crate::e4::product(&vals, used.len()) {
                let mut stmts: Vec<G> = vec![goal_of(&con)];
                let mut explicit = BTreeMap::new();
                for (k, a) in asg.iter().enumerate() {
                    if let Some(v) = a {
                        stmts.push(G::Eq(T::V(k as u32), T::I(*v)));
                        explicit.insert(k as u32, *v);
                    }
                }
                for perm in permutations(&stmts) {
                    out.push(CaseZ { program: Program { nq: used.len().max(1) as u32, body: perm }, cons: vec![con.clone()], explicit: explicit.clone(), aliased, partner: None });
                }
            }
        }
    }
    // an operand that is unified with another variable by a separate `==` (either orientation,
    // before or after the constraint): the value the constraint derives, or the value bound
    // through the partner, must reach both
    for times in [false, true] {
        for pat in crate::e4::product(&operand_choices, 3) {
            let con = Con { times, ops: [pat[0].clone(), pat[1].clone(), pat[2].clone()] };
            let mut used: Vec<u32> = vec![];
            for t in &pat {
                if let T::V(i) = t {
                    if !used.contains(i) {
                        used.push(*i);
                    }
                }
            }
            if used.is_empty() || used.iter().enumerate().any(|(k, v)| *v != k as u32) {
                continue;
            }
            // constants: one representative pair keeps the family small
            if pat.iter().any(|t| matches!(t, T::I(n) if *n != 1 && *n != 3)) {
                continue;
            }
            let aliased = pat.iter().filter(|t| t.is_var()).count() > used.len();
            let n = used.len() as u32;
            let vals: Vec<Option<i64>> = if quick { vec![None, Some(0), Some(3)] } else { vec![None, Some(-2), Some(0), Some(3)] };
            for asg in crate::e4::product(&vals, used.len()) {
                for which in 0..n {
                    let p = n; // the partner variable
                    for orient in 0..2 {
                        for through_partner in [false, true] {
                            if through_partner && asg[which as usize].is_none() {
                                continue;
                            }
                            let mut stmts: Vec<G> = vec![goal_of(&con)];
                            stmts.push(if orient == 0 { G::Eq(T::V(which), T::V(p)) } else { G::Eq(T::V(p), T::V(which)) });
                            let mut explicit = BTreeMap::new();
                            for (k, a) in asg.iter().enumerate() {
                                if let Some(v) = a {
                                    let target = if through_partner && k as u32 == which { p } else { k as u32 };
                                    stmts.push(G::Eq(T::V(target), T::I(*v)));
                                    explicit.insert(k as u32, *v);
                                }
                            }
                            for (pi, perm) in permutations(&stmts).into_iter().enumerate() {
                                if quick && stmts.len() >= 4 && pi % 3 != 0 {
                                    continue;
                                }
                                out.push(CaseZ { program: Program { nq: n + 1, body: perm }, cons: vec![con.clone()], explicit: explicit.clone(), aliased, partner: Some((which, p)) });
                            }
                        }
                    }
                }
            }
        }
    }
    // chains of two constraints sharing a variable (w = V3)
    let (x, y, z, w) = (T::V(0), T::V(1), T::V(2), T::V(3));
    let mut chains: Vec<(Con, Con)> = vec![
        (Con { times: false, ops: [x.clone(), y.clone(), z.clone()] }, Con { times: true, ops: [z.clone(), T::I(3), w.clone()] }),
        (Con { times: true, ops: [x.clone(), y.clone(), z.clone()] }, Con { times: false, ops: [z.clone(), w.clone(), T::I(1)] }),
        (Con { times: false, ops: [x.clone(), T::I(1), y.clone()] }, Con { times: false, ops: [y.clone(), T::I(1), z.clone()] }),
        (Con { times: true, ops: [x.clone(), T::I(-2), y.clone()] }, Con { times: true, ops: [w.clone(), y.clone(), z.clone()] }),
    ];
    // every way two constraints can share one variable: the shared variable in position i of
    // the first (over x, y, z) and position j of the second (with w and a constant in the other
    // two positions, both orders); whichever constraint determines the shared variable, the
    // other must be woken
    for t1 in [false, true] {
        for t2 in [false, true] {
            for i in 0..3usize {
                for j in 0..3usize {
                    for flip in [false, true] {
                        let first = [x.clone(), y.clone(), z.clone()];
                        let shared = first[i].clone();
                        let (o1, o2) = if flip { (T::I(2), w.clone()) } else { (w.clone(), T::I(2)) };
                        let mut second: Vec<T> = vec![];
                        let mut others = vec![o1, o2].into_iter();
                        for p in 0..3 {
                            if p == j {
                                second.push(shared.clone());
                            } else {
                                second.push(others.next().unwrap());
                            }
                        }
                        chains.push((Con { times: t1, ops: first }, Con { times: t2, ops: [second[0].clone(), second[1].clone(), second[2].clone()] }));
                    }
                }
            }
        }
    }
    for (c1, c2) in chains {
        let vals: Vec<Option<i64>> = vec![None, Some(-2), Some(0), Some(3)];
        for asg in crate::e4::product(&vals, 4) {
            if asg.iter().filter(|a| a.is_some()).count() > 2 {
                continue;
            }
            let mut stmts: Vec<G> = vec![goal_of(&c1), goal_of(&c2)];
            let mut explicit = BTreeMap::new();
            for (k, a) in asg.iter().enumerate() {
                if let Some(v) = a {
                    stmts.push(G::Eq(T::V(k as u32), T::I(*v)));
                    explicit.insert(k as u32, *v);
                }
            }
            for (pi, perm) in permutations(&stmts).into_iter().enumerate() {
                if quick && pi % 2 == 1 {
                    continue;
                }
                out.push(CaseZ { program: Program { nq: 4, body: perm }, cons: vec![c1.clone(), c2.clone()], explicit: explicit.clone(), aliased: false, partner: None });
            }
        }
    }
    out
}

fn check(c: &CaseZ, index: usize) -> (Vec<Violation>, &'static str) {
    crate::ev::progress("c19", index, &Value::Null);
    let sig = c.program.to_string();
    let nvars = crate::run::nvars_of(c.program.nq, &c.program.body);
    let out = run_query(nvars, &c.program, 10, 100_000);
    let mk = |kind: &str, detail: String, site: String| Violation { kind: kind.into(), sig: sig.clone(), site, detail, family: "c19".into(), index, schedule: vec![], data: Value::Null };
    let mut viols = vec![];
    let expected = reference(&c.cons, &c.explicit);
    match &out.end {
        End::Panic(m) => {
            viols.push(mk("panic", m.clone(), panic_site(m)));
            return (viols, "panic");
        }
        End::Exhausted => {}
        other => {
            viols.push(mk("no-termination", format!("{:?}", other), String::new()));
            return (viols, "other");
        }
    }
    let show = |a: &crate::conv::Ans| a.terms.iter().map(|t| t.to_string()).collect::<Vec<_>>().join(", ");
    match expected {
        None => {
            if !out.answers.is_empty() {
                // soundness: an answer although the ground equation cannot hold
                viols.push(mk("accepted-false-equation", format!("answer ({}) but integer arithmetic has no solution", show(&out.answers[0])), String::new()));
            }
            (viols, "fails")
        }
        Some(b) => {
            if out.answers.len() != 1 {
                if out.answers.is_empty() {
                    // fewer than two operand positions ground under aliasing: unspecified
                    let kind = if c.explicit.is_empty() && c.cons.len() == 1 && c.cons[0].ops.iter().all(|t| t.is_var()) { "fails-all-unbound" } else { "rejected-satisfiable" };
                    viols.push(mk(kind, format!("no answer; expected one answer with bindings {:?}", b), String::new()));
                } else {
                    viols.push(mk("answer-count", format!("{} answers", out.answers.len()), String::new()));
                }
                return (viols, "succeeds");
            }
            let a = &out.answers[0];
            let mut class = "succeeds";
            for k in 0..c.program.nq {
                // the partner of an operand has the operand's value
                let source = match c.partner {
                    Some((op, p)) if p == k => op,
                    _ => k,
                };
                match (b.get(&source), &a.terms[k as usize]) {
                    (Some(v), T::I(n)) if v == n => {}
                    (Some(v), got) => viols.push(mk(
                        if got.is_var() { "not-bound" } else { "wrong-value" },
                        format!("{} = {} but the unique integer solution is {}", var_name(k), got, v),
                        String::new(),
                    )),
                    (None, T::I(n)) => {
                        if !c.aliased {
                            viols.push(mk("bound-undetermined", format!("{} = {} although it is not determined", var_name(k), n), String::new()));
                        }
                    }
                    (None, t) if t.is_var() => class = "stays-constrained",
                    (None, t) => viols.push(mk("wrong-value", format!("{} = {}", var_name(k), t), String::new())),
                }
            }
            if b.len() > c.explicit.len() {
                class = "binds-third";
            }
            (viols, class)
        }
    }
}

/// Single constraints with two operands at the ends of the integer range whose exact result still
/// fits: the third is the unique solution, or there is no answer; never a panic.
fn extremes(ctx: &mut Ctx) -> u64 {
    let consts: Vec<i64> = vec![i64::MIN, i64::MIN + 1, i64::MAX, -1, 0, 1, 2];
    let mut cases: Vec<(bool, usize, i64, i64)> = vec![];
    for times in [false, true] {
        for pos in 0..3usize {
            for a in &consts {
                for b in &consts {
                    cases.push((times, pos, *a, *b));
                }
            }
        }
    }
    let sel: Vec<usize> = match &ctx.replay {
        Some(r) if r.family == "c19-extremes" => vec![r.index],
        Some(_) => vec![],
        None => (0..cases.len()).collect(),
    };
    let res: Vec<Option<Violation>> = par_map(&sel, |_, i| {
        crate::ev::progress("c19-extremes", *i, &Value::Null);
        let (times, pos, a, b) = cases[*i];
        // operands: the unknown q at `pos`, the constants in the other two positions in order
        let mut ops: Vec<T> = vec![];
        let mut k = [a, b].into_iter();
        for j in 0..3 {
            ops.push(if j == pos { T::V(0) } else { T::I(k.next().unwrap()) });
        }
        let g = if times { G::TimesZ(ops[0].clone(), ops[1].clone(), ops[2].clone()) } else { G::PlusZ(ops[0].clone(), ops[1].clone(), ops[2].clone()) };
        let p = Program { nq: 1, body: vec![g] };
        let out = run_query(1, &p, 5, 100_000);
        let sig = p.to_string();
        let mk = |kind: &str, detail: String, site: String| Some(Violation { kind: kind.into(), sig: sig.clone(), site, detail, family: "c19-extremes".into(), index: *i, schedule: vec![], data: Value::Null });
        // exact integer semantics in i128
        let (a, b) = (a as i128, b as i128);
        let (lo, hi) = (i64::MIN as i128, i64::MAX as i128);
        #[derive(PartialEq, Debug)]
        enum Exp {
            None,
            One(i128),
            Any,
        }
        let exp = match (times, pos) {
            (false, 2) => Exp::One(a + b),
            (false, _) => Exp::One(b - a),
            (true, 2) => Exp::One(a * b),
            // q * a = b (or a * q = b)
            (true, _) => {
                if a == 0 {
                    if b == 0 { Exp::Any } else { Exp::None }
                } else if b % a == 0 {
                    Exp::One(b / a)
                } else {
                    Exp::None
                }
            }
        };
        // C19 / C23 speak about programs whose intermediate integers stay within isize: a case
        // whose exact result (sum, difference, product, quotient) does not fit is not judged
        // (plusz computes w - u with plain `-`, which is an overflow there)
        if let Exp::One(v) = &exp {
            if *v < lo || *v > hi {
                return None;
            }
        }
        if times && pos != 2 && a != 0 && (b / a < lo || b / a > hi) {
            return None;
        }
        if let End::Panic(m) = &out.end {
            return mk("panic", m.clone(), panic_site(m));
        }
        let got: Vec<String> = out.answers.iter().map(|x| x.terms[0].to_string()).collect();
        let ok = match &exp {
            Exp::None => out.answers.is_empty(),
            Exp::One(v) => got == vec![v.to_string()],
            Exp::Any => out.answers.len() == 1 && out.answers[0].terms[0].is_var(),
        };
        if !ok {
            return mk("extreme-operands", format!("answers {:?}, integer arithmetic gives {:?}", got, exp), String::new());
        }
        None
    });
    for v in res.into_iter().flatten() {
        ctx.violation(v);
    }
    ctx.hist("extreme-operand-cases", sel.len() as u64);
    sel.len() as u64
}

pub fn run(ctx: &mut Ctx) {
    let quick = ctx.quick();
    ctx.set("rule", json!("E3: plusz / timesz x every operand pattern over {x, y, z} and {-3, -2, 0, 1, 2, 6} (thorough: 8 values) (all aliasings) x every groundness pattern (each variable never bound or bound to one of the values by a separate `==`) x EVERY order of the statements, plus chains of two constraints sharing one variable in every pair of operand positions (72 shapes + 4 hand-picked), plus single constraints one of whose operands is unified with a partner variable by a separate `==` (both orientations, the value bound directly or through the partner, every statement order; the partner is observed too); oracle: integer arithmetic closure (all ground -> equation must hold; two ground -> third bound to the unique solution, failure if none, still constrained if every integer works; fewer -> still constrained); never a panic. Family c19-extremes: one constraint with two constant operands from {isize::MIN, MIN+1, isize::MAX, -1, 0, 1, 2} and the third unknown, in every position: cases whose exact sum / difference / product / quotient is an isize (intermediate integers within isize, as C23 defines well-formed): the unknown is the unique integer solution, no answer if there is none (exact arithmetic in i128), never a panic. distinct_nontrivial = cases where a third operand is derived."));
    let cs = cases(if quick { 1 } else { 2 });
    let sel: Vec<usize> = match &ctx.replay {
        Some(r) if r.family == "c19" => vec![r.index],
        Some(_) => vec![],
        None => (0..cs.len()).collect(),
    };
    let res = par_map(&sel, |_, i| check(&cs[*i], *i));
    let mut nontrivial = 0u64;
    for (vs, class) in res {
        ctx.hist(class, 1);
        if class == "binds-third" {
            nontrivial += 1;
        }
        for v in vs {
            ctx.violation(v);
        }
    }
    for c in cs.iter().step_by((cs.len() / 4).max(1)).take(4) {
        ctx.sample(json!({"program": c.program.to_string()}));
    }
    let ex = extremes(ctx) as usize;
    ctx.set("evaluations", json!(sel.len() + ex));
    ctx.set("programs", json!(sel.len() + ex));
    ctx.set("states", json!(sel.len()));
    ctx.set("transitions", json!(sel.len()));
    ctx.set("traces_validated_against_impl", json!(sel.len()));
    ctx.set("distinct_nontrivial", json!(nontrivial));
    for k in ["fails", "binds-third", "stays-constrained", "succeeds"] {
        ctx.require_nonzero(k);
    }
    ctx.assume("values in {-3, -2, 0, 1, 2, 6} (thorough: {-4, -3, -2, -1, 0, 1, 2, 6}); with the same variable in two operand positions and fewer than two positions ground only soundness is judged");
}
