//! C16 / C17 drivers over the FD families of `fd`.
use crate::ast::Program;
use crate::ev::Ctx;
use crate::fd;
use crate::pool::par_map;
use serde_json::json;

pub fn run(ctx: &mut Ctx, which: &str) {
    let quick = ctx.quick();
    let d = if quick { 1 } else { 2 };
    ctx.set("rule", json!(format!("E3 x E2: bounded-exhaustive CLP(FD) programs — T1: one constraint of every kind x every operand pattern over 3 variables and constants {{-1,0,2}} (all aliasings) x every domain assignment x every order of the statements; T2: pairs/triples of constraints sharing variables mixed with `==`, all (quick: every third) statement orders; T3: answers bound to lists, improper lists, compounds, hidden FD variables, FD under conde; T4: plusz / timesz equations over variables that carry finite domains, alone and next to an FD constraint or a binding, every statement order — each run under every hash-order schedule with <= d deviations (sites run_constraints, process_extension_fd, enforce_constraints_fd) plus all-reversed; oracle = brute force over the domain product ({}). distinct_nontrivial = programs with at least one solution.", if which == "C16" { "every answer is a solution" } else { "every solution is returned exactly once" })));
    ctx.set("deviation_bound", json!(d));
    let families: Vec<(&str, Vec<Program>, usize)> = vec![
        ("fd-t1", fd::tier1(false), if quick { 1 } else { 2 }),
        ("fd-t2", fd::tier2(quick), d),
        ("fd-t3", fd::tier3(quick), d),
        ("fd-t4", fd::tier4(quick), d),
    ];
    let mut schedules = 0u64;
    let mut max_points = 0usize;
    let mut nontrivial = 0u64;
    let mut total = 0u64;
    if std::env::var("PVMC_LIST").is_ok() {
        for (name, progs, _) in &families {
            for (i, p) in progs.iter().enumerate() {
                let out = crate::run::run_query(crate::run::nvars_of(p.nq, &p.body), p, 100, 1_000_000);
                println!("{} {} {} => {:?} {:?} expected {:?}", name, i, p, out.answers.iter().map(|a| a.to_string()).collect::<Vec<_>>(), out.end, fd::expected(p).map(|e| e.len()));
            }
        }
        return;
    }
    for (name, progs, dd) in &families {
        let sel: Vec<usize> = match &ctx.replay {
            Some(r) if r.family == *name => vec![r.index],
            Some(_) => vec![],
            None => (0..progs.len()).collect(),
        };
        let res = par_map(&sel, |_, i| fd::check(&progs[*i], name, *i, *dd, which));
        let mut skipped = 0u64;
        for r in res {
            schedules += r.schedules;
            max_points = max_points.max(r.max_points);
            if r.skipped {
                skipped += 1;
                continue;
            }
            total += 1;
            if r.n_expected > 0 {
                nontrivial += 1;
                ctx.hist("programs-with-solutions", 1);
            } else {
                ctx.hist("programs-without-solutions", 1);
            }
            for v in r.viols {
                if v.kind == "machinery" {
                    ctx.machinery_errors.push(format!("{} [{} #{} {}]", v.detail, v.family, v.index, v.sig));
                } else {
                    ctx.violation(v);
                }
            }
        }
        ctx.hist(&format!("{}:programs", name), sel.len() as u64);
        ctx.hist(&format!("{}:outside-well-formed-fragment", name), skipped);
        for i in [0usize, progs.len() / 2, progs.len().saturating_sub(1)] {
            if let Some(p) = progs.get(i) {
                ctx.sample(json!({"family": name, "index": i, "program": p.to_string()}));
            }
        }
    }
    ctx.set("evaluations", json!(schedules));
    ctx.set("schedules", json!(schedules));
    ctx.set("max_choice_points", json!(max_points));
    ctx.set("programs", json!(total));
    ctx.set("states", json!(total));
    ctx.set("transitions", json!(schedules));
    ctx.set("traces_validated_against_impl", json!(schedules));
    ctx.set("distinct_nontrivial", json!(nontrivial));
    ctx.require_nonzero("programs-with-solutions");
    ctx.require_nonzero("programs-without-solutions");
    ctx.assume("well-formed programs only: every FD operand is given a domain by the end of the program; values stay far inside isize");
    ctx.assume("hash-order schedules are enumerated at the hooked iteration sites up to the deviation bound (plus the all-reversed schedule), not sampled");
}
