//! C04: reordering conjuncts or disjuncts preserves the answer multiset.
//! E3 x E2: every program of the families is executed in every permutation of every
//! conjunction / disjunction (exhaustive up to 4 children); the answer multisets (as sets of
//! ground instances) must agree with each other and with the order-free reference.
use crate::ast::*;
use crate::c02;
use crate::den::Den;
use crate::ev::{Ctx, Violation};
use crate::fd;
use crate::pool::par_map;
use crate::refm::*;
use crate::run::{panic_site, run_query, End};
use crate::sched;
use serde_json::{json, Value};

/// All programs obtained by permuting one node's children at a time plus (when the product is
/// small) all simultaneous permutations.
pub fn variants(p: &Program, cap: usize) -> Vec<Program> {
    fn goal_variants(g: &G) -> Vec<G> {
        match g {
            G::Conj(gs) => list_variants(gs).into_iter().map(G::Conj).collect(),
            G::Fresh(vs, gs) => list_variants(gs).into_iter().map(|x| G::Fresh(vs.clone(), x)).collect(),
            G::Conde(arms) => {
                // permute inside each arm, then the order of the arms
                let mut arm_opts: Vec<Vec<Vec<G>>> = arms.iter().map(|a| list_variants(a)).collect();
                for o in arm_opts.iter_mut() {
                    o.truncate(6);
                }
                let mut combos: Vec<Vec<Vec<G>>> = vec![vec![]];
                for opts in &arm_opts {
                    let mut next = vec![];
                    for c in &combos {
                        for o in opts {
                            let mut n = c.clone();
                            n.push(o.clone());
                            next.push(n);
                        }
                    }
                    combos = next;
                    if combos.len() > 64 {
                        combos.truncate(64);
                    }
                }
                let mut out = vec![];
                for c in combos {
                    for perm in fd::permutations(&c) {
                        out.push(G::Conde(perm));
                    }
                }
                out
            }
            G::Disj(gs) => fd::permutations(gs).into_iter().map(G::Disj).collect(),
            _ => vec![g.clone()],
        }
    }
    fn list_variants(gs: &[G]) -> Vec<Vec<G>> {
        // children variants (product, capped), then all orders
        let mut combos: Vec<Vec<G>> = vec![vec![]];
        for g in gs {
            let opts = goal_variants(g);
            let mut next = vec![];
            for c in &combos {
                for o in opts.iter().take(24) {
                    let mut n = c.clone();
                    n.push(o.clone());
                    next.push(n);
                }
            }
            combos = next;
            if combos.len() > 200 {
                combos.truncate(200);
            }
        }
        let mut out = vec![];
        for c in combos {
            if c.len() <= 4 {
                out.extend(fd::permutations(&c));
            } else {
                out.push(c.clone());
                let mut r = c.clone();
                r.reverse();
                out.push(r);
            }
        }
        out
    }
    let mut vs: Vec<Program> = list_variants(&p.body).into_iter().map(|b| Program { nq: p.nq, body: b }).collect();
    let mut seen = std::collections::HashSet::new();
    vs.retain(|v| seen.insert(v.clone()));
    vs.truncate(cap);
    vs
}

fn pure_programs(quick: bool) -> Vec<Program> {
    let x = T::V(0);
    let y = T::V(1);
    let h = T::V(2);
    let lits: Vec<G> = vec![
        G::Eq(x.clone(), T::I(5)),
        G::Eq(x.clone(), y.clone()),
        G::Eq(y.clone(), T::I(6)),
        G::Neq(x.clone(), T::I(5)),
        G::Neq(x.clone(), y.clone()),
        G::Neq(T::list(vec![x.clone(), y.clone()]), T::list(vec![T::I(5), T::I(6)])),
        G::Eq(T::list(vec![x.clone(), T::I(6)]), T::list(vec![T::I(5), y.clone()])),
        G::Neq(y.clone(), T::list(vec![x.clone()])),
    ];
    let hl: Vec<G> = vec![
        G::Eq(h.clone(), x.clone()),
        G::Neq(h.clone(), T::I(5)),
        G::Eq(T::list(vec![h.clone(), T::I(5)]), T::list(vec![y.clone(), x.clone()])),
        G::Neq(T::list(vec![x.clone(), h.clone()]), T::list(vec![T::I(5), T::I(6)])),
    ];
    let mut items: Vec<G> = lits.clone();
    // conde items
    for (i, a) in lits.iter().enumerate() {
        for (j, b) in lits.iter().enumerate() {
            if i < j && (i + j) % (if quick { 3 } else { 1 }) == 0 {
                items.push(G::Conde(vec![vec![a.clone()], vec![b.clone()]]));
                items.push(G::Conde(vec![vec![a.clone(), b.clone()], vec![lits[(i + 2) % lits.len()].clone()]]));
            }
        }
    }
    // the static goals `true` / `false` as conjuncts and as whole disjuncts (every position is
    // reached by the permutations): constructors and operators that special-case them when a
    // goal is built must not change the meaning
    items.push(G::Succeed);
    for (i, a) in lits.iter().enumerate().take(4) {
        let b = lits[(i + 2) % lits.len()].clone();
        items.push(G::Conde(vec![vec![a.clone()], vec![b.clone()], vec![G::Fail]]));
        items.push(G::Conde(vec![vec![a.clone(), G::Fail], vec![b.clone()], vec![G::Succeed]]));
        items.push(G::Conde(vec![vec![G::Succeed, a.clone()], vec![b.clone(), G::Succeed]]));
    }
    for (i, a) in hl.iter().enumerate() {
        for (j, b) in hl.iter().enumerate() {
            if i < j {
                items.push(G::Fresh(vec![2], vec![a.clone(), b.clone()]));
                items.push(G::Fresh(vec![2], vec![a.clone(), lits[(i + j) % lits.len()].clone(), b.clone()]));
            }
        }
    }
    let mut out = vec![];
    let n = items.len();
    for i in 0..n {
        for j in (i + 1)..n {
            // pairs where at least one item is structured
            if i < lits.len() && j < lits.len() {
                continue;
            }
            if quick && (i * 7 + j) % 4 != 0 {
                continue;
            }
            out.push(Program { nq: 2, body: vec![items[i].clone(), items[j].clone()] });
            // a third literal in front
            let l = lits[(i + j) % lits.len()].clone();
            if !quick || (i + j) % 3 == 0 {
                out.push(Program { nq: 2, body: vec![l, items[i].clone(), items[j].clone()] });
            }
        }
    }
    // 3-arm conde and nested conde
    for i in 0..lits.len() {
        let a = lits[i].clone();
        let b = lits[(i + 1) % lits.len()].clone();
        let c = lits[(i + 3) % lits.len()].clone();
        out.push(Program { nq: 2, body: vec![G::Conde(vec![vec![a.clone()], vec![b.clone()], vec![c.clone()]]), lits[(i + 5) % lits.len()].clone()] });
        out.push(Program { nq: 2, body: vec![G::Conde(vec![vec![a.clone(), G::Conde(vec![vec![b.clone()], vec![c.clone()]])], vec![c.clone()]])] });
        out.push(Program { nq: 2, body: vec![G::Disj(vec![a.clone(), b.clone(), c.clone()]), lits[(i + 4) % lits.len()].clone()] });
        // the binary disjunction operator nested in itself (a disjunct that is already a stream
        // of several answers when the outer one starts), alone and next to a conjunct
        let inner = G::Disj(vec![a.clone(), b.clone()]);
        out.push(Program { nq: 2, body: vec![G::Disj(vec![inner.clone(), c.clone()])] });
        out.push(Program { nq: 2, body: vec![G::Disj(vec![inner.clone(), G::Disj(vec![c.clone(), a.clone()])]), lits[(i + 4) % lits.len()].clone()] });
        out.push(Program { nq: 2, body: vec![G::Disj(vec![G::Disj(vec![inner.clone(), c.clone()]), b.clone()])] });
        out.push(Program { nq: 2, body: vec![G::Dfs(vec![G::Disj(vec![inner.clone(), c.clone()]), lits[(i + 2) % lits.len()].clone()])] });
    }
    out
}

thread_local! {
    /// canonical answer terms of the last program run by `answer_multiset` (sorted)
    static LAST_TERMS: std::cell::RefCell<Vec<Vec<T>>> = std::cell::RefCell::new(vec![]);
}

fn answer_multiset(den: &Den, p: &Program) -> Result<Vec<Vec<u64>>, End> {
    let nvars = crate::run::nvars_of(p.nq, &p.body);
    let out = run_query(nvars, p, 500, 1_000_000);
    match out.end {
        End::Exhausted => {
            let mut m: Vec<Vec<u64>> = out.answers.iter().map(|a| den.bits(&ansset_of_observed(&a.terms, &a.cons)).as_ref().clone()).collect();
            m.sort();
            let mut t: Vec<Vec<T>> = out.answers.iter().map(|a| canon_tuple(&a.terms)).collect();
            t.sort();
            LAST_TERMS.with(|l| *l.borrow_mut() = t);
            Ok(m)
        }
        other => Err(other),
    }
}

fn ref_multiset(den: &Den, p: &Program) -> Vec<Vec<u64>> {
    let mut next = crate::run::nvars_of(p.nq, &p.body) as u32;
    let q: Vec<T> = (0..p.nq).map(T::V).collect();
    let mut m = vec![];
    for path in paths(&p.body, &mut next) {
        if let Some(s) = solve_path(&path) {
            m.push(den.bits(&AnsSet::from_solved(&q, &s)).as_ref().clone());
        }
    }
    m.sort();
    m
}

fn check_pure(den: &Den, p: &Program, index: usize) -> (Vec<Violation>, u64) {
    crate::ev::progress("c04-pure", index, &Value::Null);
    let vs = variants(p, 200);
    let reference = ref_multiset(den, p);
    let mut viols = vec![];
    let mut first_terms: Option<Vec<Vec<T>>> = None;
    for v in &vs {
        let mk = |kind: &str, detail: String, site: String| Violation { kind: kind.into(), sig: v.to_string(), site, detail, family: "c04-pure".into(), index, schedule: vec![], data: Value::Null };
        match answer_multiset(den, v) {
            Ok(m) => {
                // the answer TERMS agree across permutations up to renaming (exact, not only
                // over the finite universe)
                let t = LAST_TERMS.with(|l| l.borrow().clone());
                match &first_terms {
                    None => first_terms = Some(t),
                    Some(f) if *f != t => {
                        viols.push(mk("multiset-differs", format!("permutation of `{}`: the multiset of answer terms {:?} differs from that of the first permutation {:?}", p, t, f), String::new()));
                        break;
                    }
                    _ => {}
                }
                if m != reference {
                    viols.push(mk("multiset-differs", format!("permutation of `{}`: {} answers whose instance sets differ from the order-free reference ({} answers)", p, m.len(), reference.len()), String::new()));
                    break;
                }
            }
            Err(End::Panic(msg)) => {
                viols.push(mk("panic", msg.clone(), panic_site(&msg)));
                break;
            }
            Err(other) => {
                viols.push(mk("no-termination", format!("{:?}", other), String::new()));
                break;
            }
        }
    }
    (viols, vs.len() as u64)
}

fn fd_multiset(p: &Program) -> Result<Vec<Vec<T>>, End> {
    let nvars = crate::run::nvars_of(p.nq, &p.body);
    let out = run_query(nvars, p, 4000, 2_000_000);
    match out.end {
        End::Exhausted => {
            let mut m: Vec<Vec<T>> = out.answers.iter().map(|a| a.terms.clone()).collect();
            m.sort();
            Ok(m)
        }
        other => Err(other),
    }
}

fn check_fd(p: &Program, family: &str, index: usize, d: usize) -> (Vec<Violation>, u64, u64) {
    crate::ev::progress(family, index, &Value::Null);
    let vs = variants(p, 120);
    let expected = fd::expected(p);
    let mut viols = vec![];
    let mut first: Option<Vec<Vec<T>>> = None;
    let mut schedules = 0u64;
    for v in &vs {
        let mk = |kind: &str, detail: String, site: String, schedule: Vec<usize>| Violation { kind: kind.into(), sig: v.to_string(), site, detail, family: family.into(), index, schedule, data: Value::Null };
        let f = || fd_multiset(v);
        let ex = sched::explore(&fd::FD_SITES, d, 500, &f);
        schedules += ex.schedules;
        let mut bad = false;
        for (schedule, r) in &ex.outcomes {
            match r {
                Ok(m) => {
                    let base = first.get_or_insert_with(|| m.clone());
                    if m != base {
                        viols.push(mk("multiset-differs", format!("this order gives {} answers, the first order `{}` gives {} (schedule {:?})", m.len(), vs[0], base.len(), schedule), String::new(), schedule.clone()));
                        bad = true;
                    } else if let Some(e) = &expected {
                        if m != e {
                            viols.push(mk("differs-from-brute-force", format!("{} answers, brute force has {}", m.len(), e.len()), String::new(), schedule.clone()));
                            bad = true;
                        }
                    }
                }
                Err(End::Panic(msg)) => {
                    viols.push(mk("panic", msg.clone(), panic_site(msg), schedule.clone()));
                    bad = true;
                }
                Err(other) => {
                    viols.push(mk("no-termination", format!("{:?}", other), String::new(), schedule.clone()));
                    bad = true;
                }
            }
            if bad {
                break;
            }
        }
        if bad {
            break;
        }
    }
    (viols, vs.len() as u64, schedules)
}

fn mixed_programs() -> Vec<Program> {
    // conde + FD + tree constraints in one program
    let x = T::V(0);
    let y = T::V(1);
    let dom = G::InFd(vec![x.clone(), y.clone()], Dom::Range(0, 2));
    let items: Vec<G> = vec![
        G::Fd(FdKind::Lt, vec![x.clone(), y.clone()]),
        G::Fd(FdKind::Plus, vec![x.clone(), x.clone(), y.clone()]),
        G::Fd(FdKind::Diseq, vec![x.clone(), y.clone()]),
        G::Conde(vec![vec![G::Eq(x.clone(), T::I(1))], vec![G::Eq(y.clone(), T::I(1))]]),
        G::Conde(vec![vec![G::Fd(FdKind::Lte, vec![y.clone(), x.clone()])], vec![G::Eq(x.clone(), y.clone())]]),
        G::Eq(x.clone(), y.clone()),
        G::Conde(vec![vec![G::Fd(FdKind::Times, vec![x.clone(), y.clone(), T::I(2)])], vec![G::Fd(FdKind::Minus, vec![y.clone(), x.clone(), T::I(1)]), G::Eq(x.clone(), T::I(0))]]),
    ];
    let mut out = vec![];
    for i in 0..items.len() {
        for j in (i + 1)..items.len() {
            out.push(Program { nq: 2, body: vec![dom.clone(), items[i].clone(), items[j].clone()] });
            for k in (j + 1)..items.len() {
                out.push(Program { nq: 2, body: vec![dom.clone(), items[i].clone(), items[j].clone(), items[k].clone()] });
            }
        }
    }
    out
}

pub fn run(ctx: &mut Ctx) {
    let quick = ctx.quick();
    let d = if quick { 0 } else { 1 };
    ctx.set("rule", json!("E3 x E2: (i) pure programs of 2-3 items (literals, conde of 2-3 arms, nested conde, binary Disj chains, fresh with hidden variables), (ii) FD programs (T1 one constraint x operand patterns x domain assignments; T2 two constraints + ==), (iii) mixed conde + FD — each executed in EVERY permutation of every conjunction, conde arm list and arm body with <= 4 children (products capped at 200/120 variants); answer multisets (pure: multisets of instance sets over a finite universe; FD: multisets of tuples) must agree across permutations and with the order-free reference / brute force; FD variants additionally under schedules with <= d deviations. distinct_nontrivial = programs with >= 2 distinct permutations."));
    ctx.set("deviation_bound", json!(d));
    let den = Den::new(c02::universe2());
    let mut evaluations = 0u64;
    let mut nontrivial = 0u64;
    let mut programs = 0u64;
    // (i)
    let pure = pure_programs(quick);
    let sel: Vec<usize> = match &ctx.replay {
        Some(r) if r.family == "c04-pure" => vec![r.index],
        Some(_) => vec![],
        None => (0..pure.len()).collect(),
    };
    let res = par_map(&sel, |_, i| check_pure(&den, &pure[*i], *i));
    for (vs, n) in res {
        evaluations += n;
        programs += 1;
        if n >= 2 {
            nontrivial += 1;
            ctx.hist("pure-programs-with-permutations", 1);
        }
        for v in vs {
            ctx.violation(v);
        }
    }
    ctx.hist("c04-pure:programs", sel.len() as u64);
    // (ii), (iii)
    let t1 = fd::tier1_base(quick);
    let t2: Vec<Program> = fd::tier2(true).into_iter().step_by(if quick { 8 } else { 2 }).collect();
    let mixed = mixed_programs();
    let mut schedules = 0u64;
    for (name, progs) in [("c04-fd-t1", &t1), ("c04-fd-t2", &t2), ("c04-mixed", &mixed)] {
        let sel: Vec<usize> = match &ctx.replay {
            Some(r) if r.family == name => vec![r.index],
            Some(_) => vec![],
            None => (0..progs.len()).collect(),
        };
        let res = par_map(&sel, |_, i| check_fd(&progs[*i], name, *i, d));
        for (vs, n, s) in res {
            evaluations += n;
            schedules += s;
            programs += 1;
            if n >= 2 {
                nontrivial += 1;
                ctx.hist("fd-programs-with-permutations", 1);
            }
            for v in vs {
                ctx.violation(v);
            }
        }
        ctx.hist(&format!("{}:programs", name), sel.len() as u64);
        if let Some(p) = progs.get(progs.len() / 2) {
            ctx.sample(json!({"family": name, "program": p.to_string(), "permutations": variants(p, 120).len()}));
        }
    }
    for p in pure.iter().step_by((pure.len() / 3).max(1)).take(3) {
        ctx.sample(json!({"family": "c04-pure", "program": p.to_string(), "permutations": variants(p, 200).len()}));
    }
    ctx.set("evaluations", json!(evaluations + schedules));
    ctx.set("programs", json!(programs));
    ctx.set("permutations_executed", json!(evaluations));
    ctx.set("schedules", json!(schedules));
    ctx.set("states", json!(programs));
    ctx.set("transitions", json!(evaluations + schedules));
    ctx.set("traces_validated_against_impl", json!(evaluations + schedules));
    ctx.set("distinct_nontrivial", json!(nontrivial));
    ctx.require_nonzero("pure-programs-with-permutations");
    ctx.require_nonzero("fd-programs-with-permutations");
    ctx.assume("permutations are exhaustive per node up to 4 children; simultaneous permutations of several nodes are capped (200 pure / 120 FD variants per program)");
}
