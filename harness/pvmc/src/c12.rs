//! C12: for / everyg is the conjunction of its body over the collection.
//! E3: collections of 0..3 terms (as Vec<LTerm> and as LTerm list) x bodies; compared with the
//! explicit conjunction of the instantiated bodies (differential) and with R2.
use crate::ast::*;
use crate::c02;
use crate::den::Den;
use crate::ev::{Ctx, Violation};
use crate::pool::par_map;
use crate::refm::*;
use crate::run::{panic_site, run_query, End};
use serde_json::{json, Value};

// q = V0, y = V1 (query variables); a = V2, b = V4 (collection variables, hidden); x = V3 loop variable

fn collections() -> Vec<Vec<T>> {
    let a = T::V(2);
    let b = T::V(4);
    let q = T::V(0);
    vec![
        vec![],
        vec![T::I(1)],
        vec![T::I(1), T::I(2)],
        vec![T::I(1), T::I(1)],
        vec![T::I(2), T::I(1), T::I(2)],
        vec![a.clone()],
        vec![a.clone(), T::I(1)],
        vec![a.clone(), a.clone()],
        vec![a.clone(), b.clone()],
        vec![q.clone()],
        vec![T::list(vec![T::I(1)]), T::list(vec![a.clone()])],
        vec![T::I(1), a.clone(), b.clone()],
        // repeated terms in adjacent and non-adjacent positions, longer collections
        vec![q.clone(), q.clone()],
        vec![a.clone(), b.clone(), a.clone()],
        vec![q.clone(), a.clone(), a.clone(), q.clone()],
        vec![T::I(1), T::I(2), T::I(1), T::I(2)],
        vec![T::list(vec![a.clone(), b.clone()]), T::list(vec![a.clone(), b.clone()]), T::list(vec![b.clone(), T::I(3)])],
    ]
}

fn bodies() -> Vec<(Vec<G>, bool)> {
    // (body, pure) — pure bodies are also compared with the reference semantics
    let q = T::V(0);
    let y = T::V(1);
    let x = T::V(3);
    vec![
        (vec![G::Eq(q.clone(), x.clone())], true),
        (vec![G::Conde(vec![vec![G::Eq(x.clone(), T::I(1))], vec![G::Eq(x.clone(), T::I(2))]])], true),
        (vec![G::Neq(x.clone(), T::I(2))], true),
        (vec![G::Eq(y.clone(), T::list(vec![x.clone()]))], true),
        (vec![G::Conde(vec![vec![G::Eq(q.clone(), x.clone())], vec![G::Eq(y.clone(), x.clone())]])], true),
        (vec![G::Fail], true),
        (vec![G::Succeed], true),
        (vec![G::Neq(x.clone(), T::I(1)), G::Neq(q.clone(), x.clone())], true),
        (vec![G::Fresh(vec![5], vec![G::Eq(T::V(5), x.clone()), G::Neq(q.clone(), T::V(5))])], true),
        (vec![G::Closure(Box::new(G::Eq(x.clone(), T::I(1))))], true),
        (vec![G::Eq(x.clone(), T::list(vec![y.clone()]))], true),
        (vec![G::InFd(vec![x.clone()], Dom::Range(1, 2)), G::Fd(FdKind::Lte, vec![x.clone(), T::I(1)])], false),
        // a fresh variable introduced by the body, with a choice on it: every element gets its own
        (vec![G::Fresh(vec![5], vec![G::Conde(vec![vec![G::Eq(T::V(5), T::I(1))], vec![G::Eq(T::V(5), T::I(2))]])])], true),
        (vec![G::Fresh(vec![5], vec![G::Conde(vec![vec![G::Eq(T::V(5), x.clone())], vec![G::Eq(T::V(5), T::I(3))]]), G::Neq(T::V(5), T::I(1))])], true),
        // bodies with several answers per element (multiplicities multiply)
        (vec![G::Rel(Rel::Member, vec![x.clone(), T::list(vec![T::I(1), T::I(1), T::I(2)])])], false),
        (vec![G::Conde(vec![vec![G::Eq(x.clone(), q.clone())], vec![G::Eq(x.clone(), y.clone())], vec![G::Succeed]])], true),
    ]
}

struct CaseF {
    with_for: Program,
    explicit: Program,
    pure: bool,
    empty: bool,
}

fn cases() -> Vec<CaseF> {
    let mut out = vec![];
    for coll in collections() {
        for (body, pure) in bodies() {
            // FD bodies need integer-or-variable elements (well-formed programs only)
            let fd_body = body.iter().any(|g| matches!(g, G::InFd(_, _) | G::Fd(_, _)));
            if fd_body && coll.iter().any(|t| !matches!(t, T::I(_) | T::V(_))) {
                continue;
            }
            for as_list in [false, true] {
                // a prefix/suffix around the for clause so that it is not the only goal
                for form in 0..3 {
                    let for_goal = if as_list { G::ForList(3, coll.clone(), body.clone()) } else { G::For(3, coll.clone(), body.clone()) };
                    let mut inst: Vec<G> = vec![];
                    for el in &coll {
                        for b in &body {
                            inst.push(subst_goal(b, 3, el));
                        }
                    }
                    let explicit_goal = G::Conj(inst);
                    let wrap = |g: G| -> Vec<G> {
                        match form {
                            0 => vec![G::Fresh(vec![2, 4], vec![g])],
                            1 => vec![G::Fresh(vec![2, 4], vec![G::Eq(T::V(2), T::I(1)), g])],
                            _ => vec![G::Fresh(vec![2, 4], vec![g, G::Conde(vec![vec![G::Eq(T::V(2), T::I(2))], vec![G::Eq(T::V(4), T::I(1))]])])],
                        }
                    };
                    out.push(CaseF {
                        with_for: Program { nq: 2, body: wrap(for_goal) },
                        explicit: Program { nq: 2, body: wrap(explicit_goal) },
                        pure,
                        empty: coll.is_empty(),
                    });
                }
            }
        }
    }
    out
}

fn canon(out: &crate::run::Outcome) -> Vec<String> {
    let mut v: Vec<String> = out.answers.iter().map(|a| a.to_string()).collect();
    v.sort();
    v
}

fn check(den: &Den, c: &CaseF, index: usize) -> (Vec<Violation>, bool) {
    crate::ev::progress("c12", index, &Value::Null);
    let sig = c.with_for.to_string();
    let mk = |kind: &str, detail: String, site: String| Violation { kind: kind.into(), sig: sig.clone(), site, detail, family: "c12".into(), index, schedule: vec![], data: Value::Null };
    let nv = crate::run::nvars_of(2, &c.with_for.body).max(6);
    let a = run_query(nv, &c.with_for, 300, 500_000);
    let b = run_query(nv, &c.explicit, 300, 500_000);
    let mut viols = vec![];
    if let End::Panic(m) = &a.end {
        viols.push(mk("panic", m.clone(), panic_site(m)));
        return (viols, false);
    }
    if a.end != End::Exhausted {
        viols.push(mk("no-termination", format!("{:?}", a.end), String::new()));
        return (viols, false);
    }
    // differential: multiset of instance sets (pure) or of canonical answers equals the explicit
    // conjunction's
    let bits = |o: &crate::run::Outcome| {
        let mut m: Vec<Vec<u64>> = o.answers.iter().map(|x| den.bits(&ansset_of_observed(&x.terms, &x.cons)).as_ref().clone()).collect();
        m.sort();
        m
    };
    // the answer terms agree up to renaming as well (constraints may be kept in another form)
    let terms = |o: &crate::run::Outcome| {
        let mut m: Vec<Vec<T>> = o.answers.iter().map(|x| canon_tuple(&x.terms)).collect();
        m.sort();
        m
    };
    let same = if c.pure { bits(&a) == bits(&b) && terms(&a) == terms(&b) } else { canon(&a) == canon(&b) };
    if !same || a.end != b.end {
        viols.push(mk("differs-from-explicit-conjunction", format!("for: {:?}; explicit conjunction `{}`: {:?}", canon(&a), c.explicit, canon(&b)), String::new()));
    }
    if c.pure {
        let mut next = nv as u32 + 10;
        let q: Vec<T> = vec![T::V(0), T::V(1)];
        let mut m: Vec<Vec<u64>> = vec![];
        for path in paths(&c.with_for.body, &mut next) {
            if let Some(s) = solve_path(&path) {
                m.push(den.bits(&AnsSet::from_solved(&q, &s)).as_ref().clone());
            }
        }
        m.sort();
        if m != bits(&a) {
            viols.push(mk("differs-from-reference", format!("{} answers {:?}; the reference semantics has {} answers", a.answers.len(), canon(&a), m.len()), String::new()));
        }
    }
    if c.empty {
        // an empty collection contributes exactly `true`
        let without = Program { nq: 2, body: vec![G::Succeed] };
        let _ = without;
    }
    (viols, a.answers.len() >= 1)
}

pub fn run(ctx: &mut Ctx) {
    ctx.set("rule", json!("E3: 17 collections of 0..4 terms (ground, repeated in adjacent and non-adjacent positions, variables shared inside the collection and with the query, nested and partially ground lists) given as Vec<LTerm> and as an LTerm list x 16 bodies (bind, branch, constrain, fail, succeed, fresh, a choice on a fresh variable of the body, closure, multi-answer relation call, FD) x 3 contexts: the answers of `for x in coll { body }` equal the answers of the explicit conjunction of the instantiated bodies (multisets of instance sets; canonical answers for FD/onceo bodies) and the reference semantics; the empty collection behaves as `true`. distinct_nontrivial = cases with answers."));
    let den = Den::new(c02::universe2());
    let cs = cases();
    let sel: Vec<usize> = match &ctx.replay {
        Some(r) if r.family == "c12" => vec![r.index],
        Some(_) => vec![],
        None => (0..cs.len()).collect(),
    };
    let res = par_map(&sel, |_, i| check(&den, &cs[*i], *i));
    let mut nt = 0u64;
    for (i, (vs, has)) in res.into_iter().enumerate() {
        if has {
            nt += 1;
            ctx.hist("cases-with-answers", 1);
            if cs[sel[i]].empty {
                ctx.hist("empty-collection-succeeds", 1);
            }
        } else {
            ctx.hist("cases-without-answers", 1);
        }
        for v in vs {
            ctx.violation(v);
        }
    }
    for c in cs.iter().step_by((cs.len() / 4).max(1)).take(4) {
        ctx.sample(json!({"program": c.with_for.to_string(), "explicit": c.explicit.to_string()}));
    }
    ctx.set("evaluations", json!(2 * sel.len()));
    ctx.set("programs", json!(sel.len()));
    ctx.set("states", json!(sel.len()));
    ctx.set("transitions", json!(2 * sel.len()));
    ctx.set("traces_validated_against_impl", json!(2 * sel.len()));
    ctx.set("distinct_nontrivial", json!(nt));
    if ctx.replay.is_none() {
        ctx.require_nonzero("cases-with-answers");
        ctx.require_nonzero("cases-without-answers");
        ctx.require_nonzero("empty-collection-succeeds");
    }
    ctx.assume("the collection is a Rust value fixed when the goal is constructed (the documented, non-relational reading); the `for x in expr` surface form is exercised by C14");
}
