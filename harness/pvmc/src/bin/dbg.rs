use proto_vulcan::prelude::*;
use proto_vulcan::relation::always::always;
macro_rules! go {
    ($name:expr, |$q:ident| { $($body:tt)* }) => {{
        let q = proto_vulcan_query!(|$q| { $($body)* });
        proto_vulcan::verif::reset_steps();
        let mut last = 0;
        print!("{}: ", $name);
        for (i, _r) in q.run().enumerate() {
            if (i + 1) % 100 == 0 { use std::io::Write; std::io::stdout().flush().unwrap();
                let s = proto_vulcan::verif::steps();
                print!("{} ", s - last);
                last = s;
            }
            if i >= 20000 { break; }
        }
        println!();
    }};
}
fn main() {
    let h = std::thread::Builder::new().stack_size(std::env::var("STK").unwrap().parse::<usize>().unwrap()).spawn(|| {
        go!("loop q==1", |q| { loop { q == 1 } });
        go!("loop conde1", |q| { loop { conde { q == 1 } } });
        go!("loop conde2", |q| { loop { conde { q == 1, q == 2 } } });
        go!("conde always", |q| { conde { [always(), q == 1], [always(), q == 2] } });
        go!("always conde", |q| { always(), conde { q == 1, q == 2 } });
    }).unwrap();
    h.join().unwrap();
}
