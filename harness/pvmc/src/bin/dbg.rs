use proto_vulcan::prelude::*;
use proto_vulcan::relation::clpfd::infd::infd;
use proto_vulcan::relation::clpfd::diseqfd::diseqfd;
use std::collections::BTreeMap;
fn main() {
    let mut seen: BTreeMap<String, usize> = BTreeMap::new();
    for _ in 0..64 {
        let q = proto_vulcan_query!(|q| { |a, b| { infd(a, &[1, 2]), infd(b, &[1, 2]), diseqfd(a, b), q != a } });
        let v: Vec<String> = q.run().map(|r| format!("{}", r)).collect();
        *seen.entry(format!("{:?}", v)).or_insert(0) += 1;
    }
    println!("{:?}", seen);
}
