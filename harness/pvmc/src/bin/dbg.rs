use pvmc::ast::*;
use pvmc::run::run_query;
use pvmc::sched;
fn main() {
    pvmc::run::install_quiet_panic_hook();
    let progs = pvmc::fd::tier2(true);
    let idx: usize = std::env::args().nth(1).and_then(|s| s.parse().ok()).unwrap_or(0);
    let p: &Program = &progs[idx];
    println!("{}", p);
    for round in 0..3 {
        let (out, trace, mm) = sched::run_with(&sched::ALL_SITES, &[], false, || run_query(4, p, 100, 1_000_000));
        println!("round {} answers {} mismatch {:?}", round, out.answers.len(), mm);
        println!("  {}", trace.iter().map(|t| format!("{}:{}", t.site, t.arity)).collect::<Vec<_>>().join(" "));
    }
}
