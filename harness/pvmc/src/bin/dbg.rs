use pvmc::ast::*;
use pvmc::run::run_query;
fn main() {
    pvmc::run::install_quiet_panic_hook();
    let x = T::V(0);
    let progs = vec![
        Program { nq: 1, body: vec![G::Dfs(vec![G::Conde(vec![vec![G::Eq(x.clone(), T::list(vec![T::I(1), T::I(2), T::I(3)]))], vec![G::Eq(x.clone(), T::I(1))]])])] },
        Program { nq: 1, body: vec![G::Dfs(vec![G::Rel(Rel::Member, vec![x.clone(), T::list(vec![T::list(vec![T::I(1), T::I(2)]), T::I(7), T::list(vec![T::I(3)]), T::I(8)])])])] },
    ];
    for p in progs {
        let out = run_query(1, &p, 10, 10000);
        println!("{} => {:?}", p, out.answers.iter().map(|a| a.to_string()).collect::<Vec<_>>());
    }
}
