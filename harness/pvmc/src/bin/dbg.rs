use proto_vulcan::prelude::*;
fn main() {
    let q1 = proto_vulcan_query!(|x| { conde { |z| { |w| { w == z, z == 1, x == w } }, [|u| { |v| { v == u, u == 2, x == v } }] } });
    let q2 = proto_vulcan_query!(|x| { conde { [|_a| { |_b| { _b == _a, _a == 1, x == _b } }], |c| { |d| { d == c, c == 2, x == d } } } });
    let q3 = proto_vulcan_query!(|x| { conde { |a| { |b| { b == a, a == 1, x == b } }, |_c| { |_d| { _d == _c, _c == 2, x == _d } } } });
    println!("{:?}", q1.run().map(|r| format!("{}", r.x)).collect::<Vec<_>>());
    println!("{:?}", q2.run().map(|r| format!("{}", r.x)).collect::<Vec<_>>());
    println!("{:?}", q3.run().map(|r| format!("{}", r.x)).collect::<Vec<_>>());
}
