use pvmc::ast::*;
use pvmc::run::run_query;
fn main() {
    pvmc::run::install_quiet_panic_hook();
    let x = T::V(0);
    let y = T::V(1);
    let z = T::V(2);
    let dom = G::InFd(vec![x.clone(), y.clone(), z.clone()], Dom::Range(0, 3));
    let dist = G::DistinctFd(T::list(vec![x.clone(), y.clone(), z.clone()]));
    let progs = vec![
        Program { nq: 3, body: vec![G::PlusZ(x.clone(), y.clone(), z.clone()), G::Fd(FdKind::Lt, vec![x.clone(), y.clone()]), dom.clone(), dist.clone()] },
        Program { nq: 3, body: vec![G::PlusZ(x.clone(), y.clone(), z.clone()), G::Conde(vec![vec![G::Fail], vec![G::Fd(FdKind::Lt, vec![x.clone(), y.clone()])]]), dom.clone(), dist.clone()] },
        Program { nq: 3, body: vec![G::PlusZ(x.clone(), y.clone(), z.clone()), dom.clone()] },
        Program { nq: 3, body: vec![dom.clone(), G::PlusZ(x.clone(), y.clone(), z.clone())] },
    ];
    for p in progs {
        for _ in 0..4 {
            let out = run_query(3, &p, 100, 100000);
            println!("{} => {:?} {:?}", p, out.answers.iter().map(|a| a.to_string()).collect::<Vec<_>>(), out.end);
        }
    }
}
