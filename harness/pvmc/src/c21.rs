//! C21: LTerm equality, hashing and list operations are consistent.
//! E3: all terms up to a size bound (pairs for ==/hash), all element sequences up to length 3
//! with and without improper tail (list API) against a Vec model (R8).
use crate::ast::*;
use crate::conv::*;
use crate::ev::{Ctx, Violation};
use crate::pool::par_map;
use crate::run::{guarded, panic_site, End, DE, DU};
use proto_vulcan::lterm::LTerm;
use serde_json::{json, Value};
use std::hash::{Hash, Hasher};

type L = LTerm<DU, DE>;

fn atoms() -> Vec<T> {
    vec![T::I(1), T::I(2), T::I(-1), T::B(true), T::B(false), T::C('a'), T::S("a".into()), T::S("1".into()), T::S("".into()), T::V(0), T::V(1), T::Nil]
}

pub fn term_universe(quick: bool) -> Vec<T> {
    let a = atoms();
    let small: Vec<T> = vec![T::I(1), T::I(2), T::S("a".into()), T::V(0), T::V(1), T::Nil];
    let mut u = a.clone();
    for x in &small {
        u.push(T::list(vec![x.clone()]));
        u.push(T::Cmp(Tag::Box1, vec![x.clone()]));
        for y in &small {
            u.push(T::list(vec![x.clone(), y.clone()]));
            if *y != T::Nil {
                u.push(T::cons(x.clone(), y.clone()));
            }
            u.push(T::Cmp(Tag::Pair, vec![x.clone(), y.clone()]));
            u.push(T::Cmp(Tag::Pair2, vec![x.clone(), y.clone()]));
            u.push(T::Cmp(Tag::Tuple, vec![x.clone(), y.clone()]));
            if !quick {
                u.push(T::Cmp(Tag::Named, vec![x.clone(), y.clone()]));
                u.push(T::list(vec![T::list(vec![x.clone()]), y.clone()]));
                u.push(T::list(vec![x.clone(), T::list(vec![y.clone()])]));
                u.push(T::Cmp(Tag::Pair, vec![T::list(vec![x.clone()]), y.clone()]));
                u.push(T::list(vec![T::Cmp(Tag::Box1, vec![x.clone()]), y.clone()]));
            }
        }
    }
    for x in small.iter().take(4) {
        for y in small.iter().take(4) {
            for z in small.iter().take(4) {
                u.push(T::list(vec![x.clone(), y.clone(), z.clone()]));
                if *z != T::Nil {
                    u.push(T::improper(vec![x.clone(), y.clone()], z.clone()));
                }
            }
        }
    }
    // a top-level Some(..) around a compound, a list and an atom, next to the bare terms
    for inner in [T::Cmp(Tag::Pair, vec![T::I(1), T::I(2)]), T::Cmp(Tag::Tuple, vec![T::I(1), T::I(2)]), T::Cmp(Tag::Box1, vec![T::V(0)]), T::list(vec![T::I(1)]), T::I(1)] {
        u.push(T::Cmp(Tag::Some, vec![inner.clone()]));
        u.push(T::Cmp(Tag::Some, vec![T::Cmp(Tag::Some, vec![inner.clone()])]));
        u.push(T::Cmp(Tag::Pair, vec![T::Cmp(Tag::Some, vec![inner.clone()]), T::I(1)]));
        u.push(T::Cmp(Tag::Pair, vec![inner.clone(), T::I(1)]));
        u.push(inner);
    }
    // an Option field of a compound struct: Some(_) and None are one Rust type
    for x in small.iter().take(4) {
        u.push(T::Cmp(Tag::Holder, vec![T::Cmp(Tag::OptSome, vec![x.clone()]), T::I(1)]));
        u.push(T::Cmp(Tag::Holder, vec![T::Cmp(Tag::OptNone, vec![]), x.clone()]));
    }
    if !quick {
        // length-4 lists against their improper / shorter look-alikes
        for x in small.iter().take(3) {
            for y in small.iter().take(3) {
                u.push(T::list(vec![x.clone(), y.clone(), x.clone(), y.clone()]));
                u.push(T::improper(vec![x.clone(), y.clone(), x.clone()], y.clone()));
                u.push(T::list(vec![x.clone(), T::cons(y.clone(), x.clone())]));
                u.push(T::cons(T::list(vec![x.clone(), y.clone()]), T::list(vec![x.clone()])));
            }
        }
    }
    let mut seen = std::collections::HashSet::new();
    u.retain(|t| seen.insert(t.clone()));
    u
}

/// A hasher that records every write call with its length, so that two hash streams that only
/// agree after concatenation are told apart.
#[derive(Default)]
struct Boundary {
    log: Vec<u8>,
}

impl Hasher for Boundary {
    fn finish(&self) -> u64 {
        let mut h: u64 = 1469598103934665603;
        for b in &self.log {
            h ^= *b as u64;
            h = h.wrapping_mul(1099511628211);
        }
        h
    }
    fn write(&mut self, bytes: &[u8]) {
        self.log.push(0xfe);
        self.log.extend((bytes.len() as u32).to_le_bytes());
        self.log.extend(bytes);
    }
}

fn sip(t: &L) -> u64 {
    let mut h = std::collections::hash_map::DefaultHasher::new();
    t.hash(&mut h);
    h.finish()
}

fn bnd(t: &L) -> Vec<u8> {
    let mut h = Boundary::default();
    t.hash(&mut h);
    h.log
}

fn mk(kind: &str, sig: String, detail: String, family: &str, index: usize, site: String) -> Violation {
    Violation { kind: kind.into(), sig, site, detail, family: family.into(), index, schedule: vec![], data: Value::Null }
}

fn check_eq_row(u: &[T], i: usize) -> (Vec<Violation>, u64, u64) {
    crate::ev::progress("c21-eq", i, &Value::Null);
    let mut viols = vec![];
    let mut equal_pairs = 0u64;
    let env: Env<DU, DE> = Env::new(2);
    let r = guarded(|| {
        let a = env.enc(&u[i]);
        let a2 = env.enc(&u[i]); // a second construction: clones of the same variables
        let mut out: Vec<(usize, String, String)> = vec![];
        let mut eqs = 0u64;
        if !(a == a2) || !(a == a.clone()) {
            out.push((i, "not-reflexive".into(), format!("{} is not equal to a second construction / clone of itself", u[i])));
        }
        if sip(&a) != sip(&a2) || bnd(&a) != bnd(&a2) {
            out.push((i, "hash-differs-for-equal".into(), format!("{} and an equal term hash differently", u[i])));
        }
        for j in 0..u.len() {
            let b = env.enc(&u[j]);
            let expect = u[i] == u[j];
            let got = a == b;
            let got_rev = b == a;
            if got != expect {
                out.push((j, "eq-wrong".into(), format!("({} == {}) is {}, structural equality says {}", u[i], u[j], got, expect)));
            }
            if got != got_rev {
                out.push((j, "eq-not-symmetric".into(), format!("({} == {}) is {} but the reverse is {}", u[i], u[j], got, got_rev)));
            }
            if got {
                eqs += 1;
                if sip(&a) != sip(&b) || bnd(&a) != bnd(&b) {
                    out.push((j, "hash-differs-for-equal".into(), format!("{} == {} but their hashes differ", u[i], u[j])));
                }
            }
        }
        // literal comparisons
        let is = |v: &T| u[i] == *v;
        if (a == 1isize) != is(&T::I(1)) || (1isize == a) != is(&T::I(1)) || (a == true) != is(&T::B(true)) || (a == 'a') != is(&T::C('a')) || (a == "a") != is(&T::S("a".into())) || (a == String::from("1")) != is(&T::S("1".into())) {
            out.push((i, "literal-eq-wrong".into(), format!("comparison of {} with Rust literals disagrees with its value", u[i])));
        }
        (out, eqs)
    });
    match r {
        Ok((out, eqs)) => {
            equal_pairs = eqs;
            for (j, kind, detail) in out {
                viols.push(mk(&kind, format!("{} vs {}", u[i], u[j]), detail, "c21-eq", i, String::new()));
            }
        }
        Err(End::Panic(m)) => viols.push(mk("panic", u[i].to_string(), m.clone(), "c21-eq", i, panic_site(&m))),
        Err(_) => {}
    }
    (viols, u.len() as u64, equal_pairs)
}

fn elem_values() -> Vec<T> {
    vec![T::I(1), T::I(2), T::S("a".into()), T::C('c'), T::B(true), T::V(0), T::Nil, T::list(vec![T::I(1)]), T::list(vec![T::Nil]), T::cons(T::I(1), T::I(2)), T::Cmp(Tag::Pair, vec![T::I(1), T::V(0)]), T::S("say \"hi\"\\\n\t".into())]
}

fn tails() -> Vec<Option<T>> {
    vec![None, Some(T::I(9)), Some(T::V(1)), Some(T::S("t".into())), Some(T::Cmp(Tag::Box1, vec![T::I(1)]))]
}

fn show_model(t: &T) -> String {
    // the documented list display: "[a, b]" / "[a, b | c]", strings quoted, chars in single quotes
    fn el(t: &T) -> String {
        match t {
            T::S(s) => format!("\"{}\"", s),
            T::C(c) => format!("'{}'", c),
            T::Cons(_, _) | T::Nil => show_model(t),
            T::Cmp(_, _) => "<compound>".into(),
            other => other.to_string(),
        }
    }
    match t {
        T::Nil => "[]".into(),
        T::Cons(_, _) => {
            let (items, tail) = t.list_parts();
            let mut s = String::from("[");
            for (i, it) in items.iter().enumerate() {
                if i > 0 {
                    s.push_str(", ");
                }
                s.push_str(&el(it));
            }
            if *tail != T::Nil {
                s.push_str(" | ");
                s.push_str(&el(tail));
            }
            s.push(']');
            s
        }
        other => el(other),
    }
}

fn check_list(items: &[T], tail: &Option<T>, index: usize) -> Vec<Violation> {
    crate::ev::progress("c21-list", index, &Value::Null);
    let env: Env<DU, DE> = Env::new(2);
    let term: T = match tail {
        None => T::list(items.to_vec()),
        Some(t) => T::improper(items.to_vec(), t.clone()),
    };
    let sig = format!("items {:?} tail {:?} = {}", items.iter().map(|t| t.to_string()).collect::<Vec<_>>(), tail.as_ref().map(|t| t.to_string()), term);
    // the element sequence of the term (the improper tail counts as a final element)
    let (elems, fin) = term.list_parts();
    let mut seq: Vec<T> = elems.iter().map(|t| (*t).clone()).collect();
    let improper = *fin != T::Nil;
    if improper {
        seq.push(fin.clone());
    }
    let r = guarded(|| {
        let mut out: Vec<(String, String)> = vec![];
        let mut bad = |kind: &str, d: String| out.push((kind.to_string(), d));
        let reference: L = env.enc(&term);
        let enc_items: Vec<L> = items.iter().map(|t| env.enc(t)).collect();
        let mut dec = Dec::new(Some(&env));
        // constructors
        match tail {
            None => {
                let a = L::from_vec(enc_items.clone());
                let b = L::from_array(&enc_items);
                let c: L = enc_items.iter().cloned().collect();
                for (name, t) in [("from_vec", &a), ("from_array", &b), ("collect", &c)] {
                    if *t != reference || dec.dec(t) != term {
                        bad("constructor", format!("{} builds {}", name, dec.dec(t)));
                    }
                }
            }
            Some(t) => {
                let mut v = enc_items.clone();
                v.push(env.enc(t));
                let a = L::improper_from_vec(v.clone());
                let b = L::improper_from_array(&v);
                for (name, t) in [("improper_from_vec", &a), ("improper_from_array", &b)] {
                    if *t != reference || dec.dec(t) != term {
                        bad("constructor", format!("{} builds {}", name, dec.dec(t)));
                    }
                }
            }
        }
        let is_list_term = matches!(term, T::Cons(_, _) | T::Nil);
        // predicates
        if reference.is_list() != is_list_term {
            bad("is_list", format!("is_list() = {}", reference.is_list()));
        }
        if reference.is_empty() != (term == T::Nil) {
            bad("is_empty", format!("is_empty() = {}", reference.is_empty()));
        }
        if reference.is_improper() != (is_list_term && improper) {
            bad("is_improper", format!("is_improper() = {}", reference.is_improper()));
        }
        if is_list_term {
            // iteration
            let got: Vec<T> = reference.iter().map(|t| dec.dec(t)).collect();
            if got != seq {
                bad("iter", format!("iter() yields {:?}, the element sequence is {:?}", got.iter().map(|t| t.to_string()).collect::<Vec<_>>(), seq.iter().map(|t| t.to_string()).collect::<Vec<_>>()));
            }
            let got2: Vec<T> = (&reference).into_iter().map(|t| dec.dec(t)).collect();
            if got2 != seq {
                bad("into_iter", "IntoIterator for &LTerm differs from the element sequence".into());
            }
            // a fused iterator
            let mut it = reference.iter();
            while it.next().is_some() {}
            if it.next().is_some() || it.next().is_some() {
                bad("iter-not-fused", "iter() yields after None".into());
            }
            // indexing
            for (k, e) in seq.iter().enumerate() {
                if dec.dec(&reference[k]) != *e {
                    bad("index", format!("[{}] = {}, expected {}", k, dec.dec(&reference[k]), e));
                }
            }
            // head / tail
            match &term {
                T::Cons(h, t) => {
                    if reference.head().map(|x| dec.dec(x)) != Some((**h).clone()) || reference.tail().map(|x| dec.dec(x)) != Some((**t).clone()) {
                        bad("head-tail", "head()/tail() differ from the first cell".into());
                    }
                }
                _ => {
                    if reference.head().is_some() || reference.tail().is_some() {
                        bad("head-tail", "head()/tail() of [] are not None".into());
                    }
                }
            }
            // contains
            for probe in elem_values().iter().chain([T::I(9), T::V(1)].iter()) {
                let p = env.enc(probe);
                if reference.contains(&p) != seq.contains(probe) {
                    bad("contains", format!("contains({}) = {}", probe, reference.contains(&p)));
                }
            }
            // display (compound elements print through their Debug impl: skipped)
            if !seq.iter().any(|e| matches!(e, T::Cmp(_, _)) || e.size() > 1 && format!("{}", e).contains('(')) {
                let shown = format!("{}", reference);
                if shown != show_model(&term) {
                    bad("display", format!("Display gives {:?}, expected {:?}", shown, show_model(&term)));
                }
            }
            // index_mut / iter_mut have value semantics and hit the right element
            let marker = L::from("MARK");
            for k in 0..seq.len() {
                let mut copy = reference.clone();
                copy[k] = marker.clone();
                let mut exp = seq.clone();
                exp[k] = T::S("MARK".into());
                let got: Vec<T> = copy.iter().map(|t| dec.dec(t)).collect();
                if got != exp {
                    bad("index_mut", format!("after [{}] = MARK the elements are {:?}", k, got.iter().map(|t| t.to_string()).collect::<Vec<_>>()));
                }
                if dec.dec(&reference) != term {
                    bad("index_mut-aliasing", "assigning through a clone changed the original term".into());
                }
            }
            let mut copy = reference.clone();
            let mut n = 0;
            for e in copy.iter_mut() {
                *e = marker.clone();
                n += 1;
            }
            if n != seq.len() || copy.iter().any(|e| *e != marker) || copy.iter().count() != seq.len() {
                bad("iter_mut", format!("iter_mut visited {} elements of {}", n, seq.len()));
            }
            if dec.dec(&reference) != term {
                bad("iter_mut-aliasing", "iter_mut on a clone changed the original term".into());
            }
            // extend (proper lists only)
            if !improper {
                for extra in [vec![], vec![T::I(7)], vec![T::I(7), T::Nil, T::V(1)]] {
                    let mut copy = reference.clone();
                    copy.extend(extra.iter().map(|t| env.enc(t)));
                    let mut exp = seq.clone();
                    exp.extend(extra.iter().cloned());
                    if dec.dec(&copy) != T::list(exp.clone()) {
                        bad("extend", format!("extend with {:?} gives {}", extra.iter().map(|t| t.to_string()).collect::<Vec<_>>(), dec.dec(&copy)));
                    }
                    if dec.dec(&reference) != term {
                        bad("extend-aliasing", "extend on a clone changed the original term".into());
                    }
                }
            }
        }
        out
    });
    match r {
        Ok(out) => out.into_iter().map(|(k, d)| mk(&k, sig.clone(), d, "c21-list", index, String::new())).collect(),
        Err(End::Panic(m)) => vec![mk("panic", sig, m.clone(), "c21-list", index, panic_site(&m))],
        Err(_) => vec![],
    }
}

pub fn run(ctx: &mut Ctx) {
    let quick = ctx.quick();
    ctx.set("rule", json!("E3: (a) every ordered pair of the term universe (every literal kind, two variables and second constructions of them, [], proper / improper / nested lists, five compound kinds): LTerm == equals structural equality with variable identity, is symmetric, and equal terms hash identically under SipHash and under a hasher that records write boundaries; comparisons with Rust literals agree. (b) every element sequence of length 0..4 (thorough: 0..5) over 12 element values (incl. [], nested lists, an improper pair, a compound, a string whose text contains quotes, a backslash, a newline and a tab — Display shows a literal's text as it is) with no tail and 4 improper tails: from_vec / from_array / collect / improper_from_vec / improper_from_array, iter / IntoIterator (fused), Index, IndexMut and iter_mut (right element, value semantics), head / tail, is_list / is_empty / is_improper, contains, extend, Display against the Vec model with the improper tail as final element. distinct_nontrivial = equal pairs of distinct constructions + lists."));
    let u = term_universe(false);
    let rows: Vec<usize> = match &ctx.replay {
        Some(r) if r.family == "c21-eq" => vec![r.index],
        Some(_) => vec![],
        None => (0..u.len()).collect(),
    };
    let res = par_map(&rows, |_, i| check_eq_row(&u, *i));
    let mut pairs = 0u64;
    let mut equal_pairs = 0u64;
    for (vs, p, e) in res {
        pairs += p;
        equal_pairs += e;
        for v in vs {
            ctx.violation(v);
        }
    }
    ctx.hist("equal-pairs", equal_pairs);
    ctx.hist("unequal-pairs", pairs - equal_pairs);
    // lists
    let ev = elem_values();
    let mut lists: Vec<(Vec<T>, Option<T>)> = vec![];
    for n in 0..=(if quick { 4 } else { 5 }) {
        for items in crate::e4::product(&ev, n) {
            for t in tails() {
                if false && n == 0 && t.is_some() && quick {
                    continue;
                }
                lists.push((items.clone(), t));
            }
        }
    }
    let sel: Vec<usize> = match &ctx.replay {
        Some(r) if r.family == "c21-list" => vec![r.index],
        Some(_) => vec![],
        None => (0..lists.len()).collect(),
    };
    let res = par_map(&sel, |_, i| check_list(&lists[*i].0, &lists[*i].1, *i));
    for vs in res {
        for v in vs {
            ctx.violation(v);
        }
    }
    ctx.hist("lists", sel.len() as u64);
    ctx.hist("improper-lists", lists.iter().filter(|l| l.1.is_some()).count() as u64);
    ctx.sample(json!({"universe_terms": u.iter().step_by((u.len() / 8).max(1)).map(|t| t.to_string()).collect::<Vec<_>>()}));
    ctx.sample(json!({"list": lists[lists.len() / 2].0.iter().map(|t| t.to_string()).collect::<Vec<_>>(), "tail": lists[lists.len() / 2].1.as_ref().map(|t| t.to_string())}));
    ctx.set("evaluations", json!(pairs + sel.len() as u64));
    ctx.set("universe_terms", json!(u.len()));
    ctx.set("states", json!(u.len() + lists.len()));
    ctx.set("transitions", json!(pairs + sel.len() as u64));
    ctx.set("traces_validated_against_impl", json!(pairs + sel.len() as u64));
    ctx.set("distinct_nontrivial", json!(equal_pairs + sel.len() as u64));
    if ctx.replay.is_none() {
        ctx.require_nonzero("equal-pairs");
        ctx.require_nonzero("unequal-pairs");
        ctx.require_nonzero("improper-lists");
    }
    ctx.assume("Hash is checked under two hashers, not all; extend is exercised on proper lists only (it has no meaning on an improper list)");
}
