//! C01: unification computes an mgu, with occurs check.
//! E1: explicit-state BFS over substitution states reachable by successful unifications; every
//! ordered pair of a term universe is an action; lock-step Robinson model (R1).
//! The same exploration, run a second time on the tagged-list encoding of every term, is the
//! C20 twin (compound terms behave exactly like the isomorphic list algebra).
use crate::ast::*;
use crate::conv::*;
use crate::ev::{Ctx, Violation};
use crate::pool::par_map;
use crate::refm::{canon_tuple, Subst};
use crate::run::{guarded, panic_site, run_query, End, DE, DU};
use proto_vulcan::lterm::LTerm;
use proto_vulcan::state::{unify_rec, SMap, State};
use proto_vulcan::user::DefaultUser;
use serde_json::json;
use std::cell::RefCell;
use std::collections::{BTreeMap, HashMap, HashSet};

pub const NV: usize = 3;

pub fn universe(quick: bool, with_compounds: bool, with_option: bool) -> Vec<T> {
    let x = T::V(0);
    let y = T::V(1);
    let z = T::V(2);
    let s5: Vec<T> = vec![x.clone(), y.clone(), z.clone(), T::I(1), T::I(2)];
    let s3: Vec<T> = vec![x.clone(), y.clone(), T::I(1)];
    let mut u: Vec<T> = s5.clone();
    u.push(T::Nil);
    let pairs = |s: &Vec<T>| -> Vec<(T, T)> {
        let mut v = vec![];
        for a in s {
            for b in s {
                v.push((a.clone(), b.clone()));
            }
        }
        v
    };
    let (la, lb) = if quick { (&s3, &s3) } else { (&s5, &s5) };
    for a in la.iter() {
        u.push(T::list(vec![a.clone()]));
    }
    for (a, b) in pairs(la) {
        u.push(T::list(vec![a.clone(), b.clone()]));
        u.push(T::cons(a, b));
    }
    let _ = lb;
    // [a, b | c]
    for (a, b) in pairs(&vec![x.clone(), T::I(1)]) {
        for c in [y.clone(), z.clone()] {
            u.push(T::improper(vec![a.clone(), b.clone()], c));
        }
    }
    if with_compounds {
        for (a, b) in pairs(&s3) {
            u.push(T::Cmp(Tag::Pair, vec![a.clone(), b.clone()]));
        }
        let small = vec![x.clone(), T::I(1)];
        for (a, b) in pairs(&small) {
            u.push(T::Cmp(Tag::Pair2, vec![a.clone(), b.clone()]));
            u.push(T::Cmp(Tag::Tuple, vec![a.clone(), b.clone()]));
            u.push(T::Cmp(Tag::Named, vec![a.clone(), b.clone()]));
        }
        for a in s3.iter() {
            u.push(T::Cmp(Tag::Box1, vec![a.clone()]));
        }
        // recursive type: second field is Rec or [] or a variable
        u.push(T::Cmp(Tag::Rec, vec![x.clone(), T::Nil]));
        u.push(T::Cmp(Tag::Rec, vec![T::I(1), y.clone()]));
        u.push(T::Cmp(Tag::Rec, vec![T::I(1), T::Cmp(Tag::Rec, vec![x.clone(), z.clone()])]));
        // depth-2 nests putting variables under lists under compounds and vice versa
        u.push(T::Cmp(Tag::Pair, vec![T::list(vec![x.clone()]), y.clone()]));
        u.push(T::Cmp(Tag::Box1, vec![T::cons(x.clone(), y.clone())]));
        u.push(T::list(vec![T::Cmp(Tag::Pair, vec![x.clone(), T::I(1)])]));
        u.push(T::list(vec![T::Cmp(Tag::Box1, vec![y.clone()])]));
        u.push(T::Cmp(Tag::Pair, vec![T::Cmp(Tag::Box1, vec![x.clone()]), z.clone()]));
        u.push(T::Cmp(Tag::Box1, vec![T::Cmp(Tag::Box1, vec![z.clone()])]));
        if with_option {
            for a in s3.iter() {
                u.push(T::Cmp(Tag::Some, vec![a.clone()]));
            }
            // an Option FIELD of a compound struct: Some(_) and None have the same Rust type but
            // are different structures
            let some = |t: &T| T::Cmp(Tag::OptSome, vec![t.clone()]);
            let none = T::Cmp(Tag::OptNone, vec![]);
            u.push(T::Cmp(Tag::Holder, vec![some(&x), y.clone()]));
            u.push(T::Cmp(Tag::Holder, vec![none.clone(), y.clone()]));
            u.push(T::Cmp(Tag::Holder, vec![some(&T::I(1)), T::I(1)]));
            u.push(T::Cmp(Tag::Holder, vec![none.clone(), T::I(1)]));
            u.push(T::Cmp(Tag::Holder, vec![some(&z), z.clone()]));
            // a term field before the Option field; a field typed as another compound
            u.push(T::Cmp(Tag::Holder2, vec![x.clone(), some(&y)]));
            u.push(T::Cmp(Tag::Holder2, vec![T::I(1), none.clone()]));
            u.push(T::Cmp(Tag::Holder2, vec![z.clone(), some(&T::I(1))]));
            u.push(T::Cmp(Tag::Outer, vec![x.clone(), T::Cmp(Tag::Named, vec![y.clone(), T::I(1)])]));
            u.push(T::Cmp(Tag::Outer, vec![T::I(1), T::Cmp(Tag::Named, vec![z.clone(), z.clone()])]));
            u.push(T::Cmp(Tag::Outer, vec![T::I(1), y.clone()]));
        }
    }
    u.push(T::list(vec![T::list(vec![x.clone()])]));
    u.push(T::cons(T::list(vec![y.clone()]), z.clone()));
    if !quick {
        u.push(T::list(vec![x.clone(), y.clone(), z.clone()]));
        u.push(T::list(vec![T::I(1), T::I(2), T::I(1)]));
        u.push(T::B(true));
        u.push(T::S("a".into()));
        u.push(T::C('a'));
    }
    let mut seen = HashSet::new();
    u.retain(|t| seen.insert(t.clone()));
    u
}

thread_local! {
    static CACHE: RefCell<Option<(usize, Env<DU, DE>, Vec<LTerm<DU, DE>>)>> = RefCell::new(None);
}

/// Exact key of a substitution state: the direct binding of each table variable, decoded.
pub type Key = Vec<Option<T>>;

fn state_key(env: &Env<DU, DE>, st: &State<DU, DE>) -> Key {
    let mut dec = Dec::new(Some(env));
    (0..NV)
        .map(|i| st.smap_ref().get(&env.vars[i]).map(|t| dec.dec(t)))
        .collect()
}

fn key_is_cyclic(key: &Key) -> bool {
    // variable i -> variables occurring in its binding; a cycle through a non-variable binding
    // is a cyclic term. (Pure variable chains x->y->x would loop `walk` itself.)
    fn reach(key: &Key, from: usize, target: usize, seen: &mut Vec<bool>) -> bool {
        if let Some(Some(t)) = key.get(from) {
            let mut vs = vec![];
            t.vars(&mut vs);
            for v in vs {
                if let T::V(j) = v {
                    let j = j as usize;
                    if j == target {
                        return true;
                    }
                    if !seen[j] {
                        seen[j] = true;
                        if reach(key, j, target, seen) {
                            return true;
                        }
                    }
                }
            }
        }
        false
    }
    (0..key.len()).any(|i| reach(key, i, i, &mut vec![false; key.len()]))
}

#[derive(Default)]
pub struct Local {
    pub viols: Vec<Violation>,
    pub hist: BTreeMap<String, u64>,
    pub transitions: u64,
    pub succ: Vec<(usize, Key)>,
    pub data: serde_json::Value,
}

fn v(l: &mut Local, kind: &str, sig: String, detail: String, family: &str, index: usize, site: String) {
    let data = l.data.clone();
    l.viols.push(Violation {
        kind: kind.into(),
        sig,
        site,
        detail,
        family: family.into(),
        index,
        schedule: vec![],
        data,
    });
}

fn history_text(u: &[T], n: usize, hist: &[usize]) -> String {
    hist.iter()
        .map(|a| format!("{} == {}", u[a / n], u[a % n]))
        .collect::<Vec<_>>()
        .join(", ")
}

/// Expands one history: replays it, then tries every action from the reached state.
/// `twin`: run on the tagged-list encoding and compare with the direct run (C20).
pub fn expand(u: &[T], hist: &[usize], family: &str, index: usize, twin: bool) -> Local {
    // reference side: `Some(t)` denotes `t` (see DESIGN.md, C20)
    let um: Vec<T> = u.iter().map(|t| t.strip_some()).collect();
    let mut l = Local::default();
    l.data = json!({"history": hist, "twin": twin});
    crate::ev::progress(family, index, &l.data);
    let n = u.len();
    let token = u.as_ptr() as usize ^ (twin as usize);
    CACHE.with(|c| {
        let mut c = c.borrow_mut();
        if c.as_ref().map(|x| x.0) != Some(token) {
            let env: Env<DU, DE> = Env::new(NV);
            let terms: Vec<LTerm<DU, DE>> = u
                .iter()
                .map(|t| if twin { env.enc(&t.strip_some().to_tagged_list()) } else { env.enc(t) })
                .collect();
            *c = Some((token, env, terms));
        }
        let (_, env, terms) = c.as_ref().unwrap();
        // replay on implementation and model
        let mut st: State<DU, DE> = State::new(DefaultUser::new());
        let mut model = Subst::new();
        for a in hist {
            let (i, j) = (a / n, a % n);
            match guarded(|| st.clone().unify(&terms[i], &terms[j])) {
                Ok(Ok(s)) => st = s,
                _ => {
                    v(&mut l, "replay-diverged", history_text(u, n, hist), "a previously successful unification no longer succeeds on replay".into(), family, index, String::new());
                    return;
                }
            }
            model.unify(&um[i], &um[j]);
        }
        let pre_key = state_key(env, &st);
        let pre_text = history_text(u, n, hist);
        for a in 0..n * n {
            let (i, j) = (a / n, a % n);
            l.transitions += 1;
            let sig = if hist.is_empty() {
                format!("{} == {}", u[i], u[j])
            } else {
                format!("{}, {} == {}", pre_text, u[i], u[j])
            };
            let mut m2 = model.clone();
            let expected = m2.unify(&um[i], &um[j]);
            let res = guarded(|| st.clone().unify(&terms[i], &terms[j]));
            // (f) the pre-state is a value: untouched by the call
            if state_key(env, &st) != pre_key {
                v(&mut l, "prestate-mutated", sig.clone(), "the state the unification started from changed".into(), family, index, String::new());
            }
            match res {
                Err(End::Panic(msg)) => {
                    let site = panic_site(&msg);
                    v(&mut l, "panic", sig, msg, family, index, site);
                }
                Err(_) => {}
                Ok(Err(())) => {
                    if expected.is_some() {
                        v(&mut l, "refused-unifiable", sig, format!("unify failed but the terms have the unifier {:?}", m2.0), family, index, String::new());
                    } else {
                        // distinguish clash from occurs-check refusals
                        let mut m3 = model.clone();
                        let occurs = unify_no_occurs(&mut m3, &um[i], &um[j]);
                        *l.hist.entry(if occurs { "refused-occurs-check".into() } else { "refused-clash".into() }).or_insert(0) += 1;
                    }
                }
                Ok(Ok(post)) => {
                    let key = state_key(env, &post);
                    if key_is_cyclic(&key) {
                        v(&mut l, "cyclic-binding", sig, format!("post-state bindings {:?} contain a cycle", key), family, index, String::new());
                        continue;
                    }
                    if expected.is_none() {
                        v(&mut l, "accepted-nonunifiable", sig, format!("unify succeeded (bindings {:?}) but the terms have no finite unifier", key), family, index, String::new());
                        continue;
                    }
                    // (b) both sides resolve to the identical term
                    let w1 = post.smap_ref().walk_star(&terms[i]);
                    let w2 = post.smap_ref().walk_star(&terms[j]);
                    let mut dec = Dec::new(Some(env));
                    let (d1, d2) = (dec.dec(&w1), dec.dec(&w2));
                    if w1 != w2 || d1 != d2 {
                        v(&mut l, "sides-differ", sig.clone(), format!("after success the sides resolve to {} and {}", d1, d2), family, index, String::new());
                    }
                    // (c) most general: images of the variables equal the model's up to renaming
                    let images: Vec<T> = (0..NV).map(|k| dec.dec(&post.smap_ref().walk_star(&env.vars[k]))).collect();
                    let images = if twin {
                        images
                            .iter()
                            .map(|t| if t.is_var() { t.clone() } else { t.from_tagged_list().unwrap_or_else(|| T::S(format!("<undecodable {}>", t))) })
                            .collect()
                    } else {
                        images
                    };
                    let mimages: Vec<T> = (0..NV).map(|k| m2.apply(&T::V(k as u32))).collect();
                    if canon_tuple(&images) != canon_tuple(&mimages) {
                        v(&mut l, "not-mgu", sig.clone(), format!("(x, y, z) = ({}, {}, {}) but the most general unifier gives ({}, {}, {})", images[0], images[1], images[2], mimages[0], mimages[1], mimages[2]), family, index, String::new());
                    }
                    // (d) no variable inside its own image
                    for (k, im) in images.iter().enumerate() {
                        if !im.is_var() && im.has_var(&T::V(k as u32)) {
                            v(&mut l, "cyclic-answer", sig.clone(), format!("{} occurs in its own value {}", var_name(k as u32), im), family, index, String::new());
                        }
                    }
                    // (e) unify_rec: extension keys were unbound, new smap = old + extension
                    let mut ext = SMap::new();
                    if let Ok(Ok(p2)) = guarded(|| unify_rec(st.clone(), &mut ext, &terms[i], &terms[j])) {
                        let mut d = Dec::new(Some(env));
                        let mut ok = true;
                        let mut count = 0;
                        for (k, val) in std::ops::Deref::deref(&ext).iter() {
                            count += 1;
                            if !k.is_var() || st.smap_ref().contains_key(k) {
                                ok = false;
                            }
                            if p2.smap_ref().get(k) != Some(val) {
                                ok = false;
                            }
                            let _ = d.dec(k);
                        }
                        if p2.smap_ref().len() != st.smap_ref().len() + count {
                            ok = false;
                        }
                        for (k, val) in std::ops::Deref::deref(st.smap_ref()).iter() {
                            if p2.smap_ref().get(k) != Some(val) {
                                ok = false;
                            }
                        }
                        if !ok {
                            v(&mut l, "extension-inconsistent", sig.clone(), "unify_rec: the extension is not exactly the set of new bindings of previously unbound variables".into(), family, index, String::new());
                        }
                        if count == 0 {
                            *l.hist.entry("already-equal".into()).or_insert(0) += 1;
                        } else {
                            *l.hist.entry("bound".into()).or_insert(0) += 1;
                        }
                    }
                    l.succ.push((a, key));
                }
            }
        }
    });
    l
}

/// Unification without occurs check on a clone; returns true iff it *would* succeed, i.e. the
/// only reason R1 fails is the occurs check.
fn unify_no_occurs(s: &mut Subst, a: &T, b: &T) -> bool {
    fn go(s: &mut Subst, a: &T, b: &T, fuel: &mut u32) -> bool {
        if *fuel == 0 {
            return true;
        }
        *fuel -= 1;
        let a = s.walk(a).clone();
        let b = s.walk(b).clone();
        if a == b {
            return true;
        }
        match (&a, &b) {
            (T::V(_), _) => {
                s.0.insert(a, b);
                true
            }
            (_, T::V(_)) => {
                s.0.insert(b, a);
                true
            }
            (T::Cons(h1, t1), T::Cons(h2, t2)) => go(s, h1, h2, fuel) && go(s, t1, t2, fuel),
            (T::Cmp(g1, f1), T::Cmp(g2, f2)) => {
                g1 == g2 && f1.len() == f2.len() && f1.iter().zip(f2.iter()).all(|(x, y)| go(s, x, y, fuel))
            }
            _ => false,
        }
    }
    go(s, a, b, &mut 200)
}

pub struct BfsStats {
    pub states: u64,
    pub transitions: u64,
    pub levels: Vec<(usize, u64)>,
}

/// Level-synchronous BFS over histories, deduplicated by exact state key.
pub fn bfs(ctx: &mut Ctx, u: &[T], depth: usize, family: &str, twin: bool, state_cap: usize) -> BfsStats {
    if let Some(r) = ctx.replay.clone() {
        // single-case mode: expand exactly the recorded history
        if r.family == family {
            let hist: Vec<usize> = r.data["history"].as_array().map(|a| a.iter().filter_map(|x| x.as_u64().map(|n| n as usize)).collect()).unwrap_or_default();
            let l = crate::pool::on_big_stack(|| expand(u, &hist, family, r.index, twin));
            for viol in l.viols {
                ctx.violation(viol);
            }
        }
        return BfsStats { states: 1, transitions: 0, levels: vec![] };
    }
    let mut seen: HashMap<Key, ()> = HashMap::new();
    let mut frontier: Vec<Vec<usize>> = vec![vec![]];
    seen.insert(vec![None; NV], ());
    let mut stats = BfsStats { states: 1, transitions: 0, levels: vec![] };
    for level in 0..depth {
        let base_index = stats.states as usize; // case index = running state counter
        let results: Vec<Local> = par_map(&frontier, |i, h| expand(u, h, family, base_index + i, twin));
        let mut next: Vec<Vec<usize>> = vec![];
        for (h, l) in frontier.iter().zip(results.into_iter()) {
            stats.transitions += l.transitions;
            for (k, n) in l.hist {
                ctx.hist(&k, n);
            }
            for viol in l.viols {
                ctx.violation(viol);
            }
            for (a, key) in l.succ {
                if !seen.contains_key(&key) {
                    seen.insert(key, ());
                    let mut nh = h.clone();
                    nh.push(a);
                    next.push(nh);
                }
            }
        }
        stats.levels.push((level + 1, next.len() as u64));
        stats.states += next.len() as u64;
        if level + 1 == depth {
            break;
        }
        if next.len() > state_cap {
            ctx.caps_hit.push(format!("{}: frontier of level {} truncated from {} to {} states", family, level + 1, next.len(), state_cap));
            next.truncate(state_cap);
        }
        frontier = next;
    }
    stats
}

/// Level-1 pairs through the public query iterator: `|x, y, z| { u == v }`.
fn query_level(ctx: &mut Ctx, u: &[T], shared: bool) -> u64 {
    let n = u.len();
    let family = if shared { "c01-shared" } else { "c01-query" };
    let cases: Vec<usize> = match &ctx.replay {
        Some(r) if r.family == family => vec![r.index],
        Some(_) => vec![],
        None => (0..n * n).collect(),
    };
    let res: Vec<Option<Violation>> = par_map(&cases, |_, a| {
        crate::ev::progress(family, *a, &serde_json::Value::Null);
        let (i, j) = (a / n, a % n);
        // shared: `botho(_, u, v)` — the relation unifies its ONE first argument (an anonymous
        // variable written at the call) with u and then v with it, so u and v must unify
        let p = if shared {
            Program { nq: NV as u32, body: vec![G::Call("botho".into(), vec![T::W, u[i].clone(), u[j].clone()])] }
        } else {
            Program { nq: NV as u32, body: vec![G::Eq(u[i].clone(), u[j].clone())] }
        };
        let out = run_query(NV, &p, 5, 100_000);
        let mut m = Subst::new();
        let exp = m.unify(&u[i], &u[j]);
        let sig = format!("{}", p);
        let mk = |kind: &str, detail: String, site: String| {
            Some(Violation { kind: kind.into(), sig: sig.clone(), site, detail, family: family.into(), index: *a, schedule: vec![], data: serde_json::Value::Null })
        };
        match (&out.end, exp) {
            (End::Panic(msg), _) => mk("panic", msg.clone(), panic_site(msg)),
            (End::Exhausted, None) => {
                if out.answers.is_empty() {
                    None
                } else {
                    mk("accepted-nonunifiable", format!("query has answers {:?}", out.answers.iter().map(|a| a.to_string()).collect::<Vec<_>>()), String::new())
                }
            }
            (End::Exhausted, Some(_)) => {
                if out.answers.len() != 1 {
                    return mk("answer-count", format!("expected exactly one answer, got {}", out.answers.len()), String::new());
                }
                let images: Vec<T> = (0..NV).map(|k| m.apply(&T::V(k as u32))).collect();
                if canon_tuple(&images) != out.answers[0].terms {
                    mk("not-mgu", format!("answer {} but the mgu gives ({}, {}, {})", out.answers[0], images[0], images[1], images[2]), String::new())
                } else {
                    None
                }
            }
            (e, _) => mk("no-termination", format!("query ended with {:?}", e), String::new()),
        }
    });
    for r in res.into_iter().flatten() {
        ctx.violation(r);
    }
    (n * n) as u64
}

pub fn run(ctx: &mut Ctx) {
    let quick = ctx.quick();
    // Option<LTerm> values are explored by C20 (they have their own finding); C01's universe
    // uses the five struct/tuple compound kinds.
    let u = universe(false, true, false);
    let depth = if quick { 2 } else { 3 };
    ctx.set("rule", json!("E1: BFS over substitution states (exact key: direct bindings of x, y, z) reachable by successful unifications; actions = every ordered pair of the term universe; on every transition the implementation is compared with a Robinson unifier run in lock-step (success iff unifiable; both sides resolve identically; images equal the mgu up to renaming; no variable inside its own value; unify_rec's extension is exactly the new bindings; pre-state untouched). distinct_nontrivial = distinct states reached."));
    ctx.set("universe_terms", json!(u.len()));
    ctx.set("depth", json!(depth));
    let cap = usize::MAX;
    let stats = bfs(ctx, &u, depth, "c01-e1", false, cap);
    let q = query_level(ctx, &u, false) + query_level(ctx, &u, true);
    ctx.set("states", json!(stats.states));
    ctx.set("transitions", json!(stats.transitions + q));
    ctx.set("traces_validated_against_impl", json!(stats.transitions + q));
    ctx.set("evaluations", json!(stats.transitions + q));
    ctx.set("distinct_nontrivial", json!(stats.states));
    ctx.set("max_depth", json!(depth));
    ctx.set("states_per_level", json!(stats.levels));
    ctx.set("query_level_programs", json!(q));
    for t in u.iter().step_by((u.len() / 8).max(1)) {
        ctx.sample(json!({"universe_term": t.to_string()}));
    }
    ctx.sample(json!({"action": format!("{} == {}", u[7], u[12]), "from_state": "empty"}));
    for k in ["bound", "already-equal", "refused-clash", "refused-occurs-check"] {
        ctx.require_nonzero(k);
    }
    ctx.assume("term universe and depth as reported; Option values are covered by C20");
    ctx.assume("reference: Robinson unification with occurs check on the plain AST");
}
