//! C24: library list relations implement their documented relations in every argument mode.
//! E3: every mode (ground / partially ground / fresh per argument) over short lists on {1,2,3};
//! oracle: the Vec definition evaluated on ground tuples (R8) + instance semantics (R2).
use crate::ast::*;
use crate::conv::Ans;
use crate::ev::{Ctx, Violation};
use crate::pool::par_map;
use crate::refm::*;
use crate::run::{panic_site, run_query, End};
use serde_json::{json, Value};

fn elems_of(t: &T) -> Option<Vec<T>> {
    let (items, tail) = t.list_parts();
    if *tail == T::Nil {
        Some(items.into_iter().cloned().collect())
    } else {
        None
    }
}

/// The documented relation on ground arguments.
pub fn holds(rel: Rel, a: &[T]) -> bool {
    match rel {
        Rel::Member | Rel::Member1 => {
            // x occurs among the elements of l (the elements before an improper tail count)
            let (items, _) = a[1].list_parts();
            matches!(a[1], T::Cons(_, _)) && items.iter().any(|e| **e == a[0])
        }
        Rel::Append => match elems_of(&a[0]) {
            Some(l) => a[2] == T::improper(l, a[1].clone()),
            None => false,
        },
        Rel::Rember => match (elems_of(&a[1]), elems_of(&a[2])) {
            (Some(ls), Some(out)) => {
                let mut exp = ls.clone();
                if let Some(p) = exp.iter().position(|e| *e == a[0]) {
                    exp.remove(p);
                }
                exp == out
            }
            _ => false,
        },
        Rel::Permute => match (elems_of(&a[0]), elems_of(&a[1])) {
            (Some(mut x), Some(mut y)) => {
                x.sort();
                y.sort();
                x == y
            }
            _ => false,
        },
        Rel::Distinct => match elems_of(&a[0]) {
            Some(l) => (0..l.len()).all(|i| (i + 1..l.len()).all(|j| l[i] != l[j])),
            None => false,
        },
        Rel::ConsR => a[2] == T::cons(a[0].clone(), a[1].clone()),
        Rel::First => matches!(&a[0], T::Cons(h, _) if **h == a[1]),
        Rel::Rest => matches!(&a[0], T::Cons(_, t) if **t == a[1]),
        Rel::Empty => a[0] == T::Nil,
    }
}

#[derive(Clone, Debug)]
pub struct RelCase {
    pub rel: Rel,
    pub args: Vec<T>,
    pub nvars: u32,
}

impl RelCase {
    fn text(&self) -> String {
        format!("{}({})", self.rel.name(), self.args.iter().map(|t| t.to_string()).collect::<Vec<_>>().join(", "))
    }
}

fn elem_choices() -> Vec<T> {
    vec![T::I(1), T::I(2), T::V(100)]
}

fn list_choices(quick: bool) -> Vec<T> {
    let v = T::V(100);
    let w = T::V(101);
    let mut c = vec![
        T::Nil,
        T::list(vec![T::I(1)]),
        T::list(vec![T::I(1), T::I(2)]),
        T::list(vec![T::I(2), T::I(1), T::I(2)]),
        T::list(vec![T::I(1), T::I(2), T::I(3)]),
        T::list(vec![v.clone(), T::I(2)]),
        T::cons(T::I(1), v.clone()),
        v.clone(),
    ];
    if !quick {
        c.push(T::list(vec![T::I(1), T::I(1)]));
        c.push(T::list(vec![v.clone(), w.clone()]));
        c.push(T::improper(vec![T::I(2), v.clone()], w.clone()));
    }
    c
}

/// Renumbers placeholder variables (100, 101) so that every argument position gets its own
/// variables, then the distinct variables become query variables 0..n.
fn finish(rel: Rel, raw: Vec<T>) -> RelCase {
    let mut next = 0u32;
    let mut args = vec![];
    for t in raw {
        let mut local: Vec<(T, T)> = vec![];
        let nt = t.map_vars(&mut |v| {
            if let Some((_, n)) = local.iter().find(|(o, _)| o == v) {
                return n.clone();
            }
            let n = T::V(next);
            next += 1;
            local.push((v.clone(), n.clone()));
            n
        });
        args.push(nt);
    }
    RelCase { rel, args, nvars: next }
}

pub fn cases(quick: bool) -> Vec<RelCase> {
    let e = elem_choices();
    let l = list_choices(quick);
    let mut out = vec![];
    let kinds: Vec<(Rel, Vec<&Vec<T>>)> = vec![
        (Rel::Member, vec![&e, &l]),
        (Rel::Member1, vec![&e, &l]),
        (Rel::Append, vec![&l, &l, &l]),
        (Rel::Rember, vec![&e, &l, &l]),
        (Rel::Permute, vec![&l, &l]),
        (Rel::Distinct, vec![&l]),
        (Rel::ConsR, vec![&e, &l, &l]),
        (Rel::First, vec![&l, &e]),
        (Rel::Rest, vec![&l, &l]),
        (Rel::Empty, vec![&l]),
    ];
    for (rel, doms) in kinds {
        let mut combos: Vec<Vec<T>> = vec![vec![]];
        for d in doms {
            let mut next = vec![];
            for c in &combos {
                for x in d.iter() {
                    let mut n = c.clone();
                    n.push(x.clone());
                    next.push(n);
                }
            }
            combos = next;
        }
        for c in combos {
            out.push(finish(rel, c));
        }
        // shared variables between arguments (aliasing): the same variable twice
        let x = T::V(100);
        match rel {
            Rel::Append => {
                out.push(RelCase { rel, args: vec![T::V(0), T::V(0), T::list(vec![T::I(1), T::I(1)])], nvars: 1 });
                out.push(RelCase { rel, args: vec![T::V(0), T::V(1), T::V(0)], nvars: 2 });
            }
            Rel::Permute => out.push(RelCase { rel, args: vec![T::list(vec![T::I(1), T::V(0)]), T::list(vec![T::V(0), T::I(1)])], nvars: 1 }),
            Rel::Rember => out.push(RelCase { rel, args: vec![T::V(0), T::list(vec![T::I(1), T::V(0), T::I(2)]), T::V(1)], nvars: 2 }),
            Rel::Member => out.push(RelCase { rel, args: vec![T::V(0), T::list(vec![T::I(1), T::V(0)])], nvars: 1 }),
            _ => {}
        }
        // elements that are themselves lists, partially ground on either side: the element and
        // a list item are not syntactically equal but unify through a nested variable
        let pair = |a: T, b: T| T::list(vec![a, b]);
        let nested: Vec<(T, T, u32)> = vec![
            (pair(T::I(1), T::V(0)), T::list(vec![pair(T::I(1), T::I(2)), pair(T::I(1), T::I(3))]), 1),
            (pair(T::I(1), T::I(2)), T::list(vec![pair(T::I(2), T::I(2)), pair(T::I(1), T::V(0))]), 1),
            (pair(T::V(0), T::I(2)), T::list(vec![pair(T::I(1), T::V(1)), pair(T::I(3), T::I(2))]), 2),
            (pair(T::I(1), T::I(2)), T::list(vec![pair(T::I(1), T::I(2)), pair(T::I(1), T::I(2))]), 0),
        ];
        for (x, l, nv) in &nested {
            match rel {
                Rel::Member | Rel::Member1 => out.push(RelCase { rel, args: vec![x.clone(), l.clone()], nvars: *nv }),
                Rel::Rember => out.push(RelCase { rel, args: vec![x.clone(), l.clone(), T::V(*nv)], nvars: *nv + 1 }),
                Rel::First => out.push(RelCase { rel, args: vec![l.clone(), x.clone()], nvars: *nv }),
                Rel::ConsR => out.push(RelCase { rel, args: vec![x.clone(), T::V(*nv), l.clone()], nvars: *nv + 1 }),
                _ => {}
            }
        }
        let _ = x;
    }
    // arguments that are not lists as written (an improper list with a ground non-[] tail, an
    // atom) in the positions a relation has to walk to the end: nothing is related to them
    let improper: Vec<T> = vec![
        T::cons(T::I(1), T::I(7)),
        T::improper(vec![T::I(1), T::I(2)], T::I(7)),
        T::cons(T::V(100), T::I(7)),
        T::improper(vec![T::I(2), T::I(1)], T::cons(T::V(100), T::I(7))),
        T::I(7),
    ];
    let others: Vec<T> = vec![T::Nil, T::list(vec![T::I(1)]), T::list(vec![T::I(1), T::I(2)]), T::list(vec![T::I(2), T::I(1)]), T::V(100)];
    for bad in &improper {
        for o in &others {
            out.push(finish(Rel::Permute, vec![bad.clone(), o.clone()]));
            out.push(finish(Rel::Permute, vec![o.clone(), bad.clone()]));
            out.push(finish(Rel::Append, vec![bad.clone(), o.clone(), T::V(100)]));
            out.push(finish(Rel::Append, vec![bad.clone(), T::V(100), o.clone()]));
        }
        out.push(finish(Rel::Distinct, vec![bad.clone()]));
    }
    out
}

/// The positions a relation walks to the end of the list (so the argument has to BE a list).
fn walked_positions(rel: Rel) -> &'static [usize] {
    match rel {
        Rel::Permute => &[0, 1],
        Rel::Append => &[0],
        Rel::Distinct => &[0],
        _ => &[],
    }
}

/// true when the term is a list whose length is fixed as written (elements may be variables)
fn closed_length(t: &T) -> bool {
    match t {
        T::Nil => true,
        T::Cons(_, tl) => closed_length(tl),
        _ => false,
    }
}

/// Modes in which a fixed-length list bounds every derivation of the relation.
fn bounded_mode(rel: Rel, a: &[T]) -> bool {
    match rel {
        Rel::Append => closed_length(&a[0]) || closed_length(&a[2]),
        Rel::Member => closed_length(&a[1]),
        // member1 stops at the first element equal to x: a ground x that occurs (syntactically)
        // in the written prefix bounds the search even when the tail is open
        Rel::Member1 => closed_length(&a[1]) || (a[0].is_ground() && a[1].list_parts().0.iter().any(|e| **e == a[0])),
        Rel::Rember => closed_length(&a[1]),
        Rel::Distinct | Rel::Empty => closed_length(&a[0]),
        Rel::ConsR | Rel::First | Rel::Rest => true,
        Rel::Permute => closed_length(&a[0]),
    }
}

/// false when the term as written cannot be instantiated to a proper list
fn can_be_list(t: &T) -> bool {
    match t {
        T::Nil | T::V(_) => true,
        T::Cons(_, tl) => can_be_list(tl),
        _ => false,
    }
}

fn ground_values(big: bool) -> Vec<T> {
    let atoms: Vec<T> = if big { vec![T::I(1), T::I(2), T::I(3)] } else { vec![T::I(1), T::I(2)] };
    let mut v = atoms.clone();
    v.push(T::Nil);
    for a in &atoms {
        v.push(T::list(vec![a.clone()]));
        for b in &atoms {
            v.push(T::list(vec![a.clone(), b.clone()]));
            if big {
                for c in &atoms {
                    v.push(T::list(vec![a.clone(), b.clone(), c.clone()]));
                }
            }
        }
    }
    v
}

fn inst_values() -> Vec<T> {
    vec![T::I(1), T::I(2), T::I(3), T::I(9), T::Nil, T::list(vec![T::I(1)]), T::list(vec![T::I(2), T::I(9)])]
}

fn subst_vars(t: &T, f: &dyn Fn(&T) -> Option<T>) -> T {
    t.map_vars(&mut |v| f(v).unwrap_or_else(|| v.clone()))
}

fn check(c: &RelCase, index: usize) -> (Vec<Violation>, &'static str) {
    crate::ev::progress("c24", index, &Value::Null);
    let sig = c.text();
    let mk = |kind: &str, detail: String, site: String| Violation { kind: kind.into(), sig: sig.clone(), site, detail, family: "c24".into(), index, schedule: vec![], data: Value::Null };
    let mut viols = vec![];
    let nq = c.nvars.max(1);
    let p = Program { nq, body: vec![G::Rel(c.rel, c.args.clone())] };
    let out = run_query(nq as usize, &p, 120, 400_000);
    if let End::Panic(m) = &out.end {
        viols.push(mk("panic", m.clone(), panic_site(m)));
        return (viols, "panic");
    }
    let finite = out.end == End::Exhausted;
    if walked_positions(c.rel).iter().any(|p| !can_be_list(&c.args[*p])) {
        // no list is an instance of such an argument: the relation holds for no instance
        if let Some(a) = out.answers.first() {
            viols.push(mk("non-list-argument", format!("{} has the answer {} although an argument it has to walk to its end is not a list", sig, a), String::new()));
        }
        return (viols, if out.answers.is_empty() { "rejects-non-list" } else { "answers" });
    }
    // --- soundness: every instance of every answer satisfies the definition
    let iv = inst_values();
    'answers: for a in &out.answers {
        let mut avars: Vec<T> = vec![];
        for t in &a.terms {
            t.vars(&mut avars);
        }
        if avars.len() > 4 {
            avars.truncate(4);
        }
        let n = avars.len();
        let total = iv.len().pow(n as u32);
        for code in 0..total {
            let mut k = code;
            let mut asg: Vec<(T, T)> = vec![];
            for v in &avars {
                asg.push((v.clone(), iv[k % iv.len()].clone()));
                k /= iv.len();
            }
            let look = |v: &T| asg.iter().find(|(o, _)| o == v).map(|(_, val)| val.clone());
            // constraints of the answer must hold for the instance
            let ok = a.cons.iter().all(|d| d.iter().any(|(l, r)| subst_vars(l, &look) != subst_vars(r, &look)));
            if !ok {
                continue;
            }
            let qvals: Vec<T> = a.terms.iter().map(|t| subst_vars(t, &look)).collect();
            if qvals.iter().any(|t| !t.is_ground()) {
                continue;
            }
            let args: Vec<T> = c.args.iter().map(|t| subst_vars(t, &|v| if let T::V(i) = v { qvals.get(*i as usize).cloned() } else { None })).collect();
            // instances that put a non-list where the relation expects a list are outside the
            // documented relation (only reachable through variable tails): not judged
            let list_positions: &[usize] = match c.rel {
                Rel::Rember => &[1, 2],
                Rel::Permute => &[0, 1],
                Rel::Distinct => &[0],
                _ => &[],
            };
            if list_positions.iter().any(|p| elems_of(&args[*p]).is_none()) {
                continue;
            }
            if !holds(c.rel, &args) {
                let kind = if c.rel == Rel::Permute && elems_of(&args[0]).map(|l| l.len()) != elems_of(&args[1]).map(|l| l.len()) { "permute-length-mismatch" } else { "unsound-answer" };
                viols.push(mk(kind, format!("answer {} has the instance {}({}) which is not in the relation", a, c.rel.name(), args.iter().map(|t| t.to_string()).collect::<Vec<_>>().join(", ")), String::new()));
                break 'answers;
            }
        }
    }
    // --- completeness: every satisfying ground tuple (small universe; larger when the search
    // ended) is an instance of some answer
    let gv = ground_values(finite);
    let sets: Vec<AnsSet> = out.answers.iter().map(|a| ansset_of_observed(&a.terms, &a.cons)).collect();
    let nv = c.nvars as usize;
    let total = gv.len().pow(nv as u32);
    if total <= 70_000 {
        for code in 0..total {
            let mut k = code;
            let mut q: Vec<T> = vec![];
            for _ in 0..nv {
                q.push(gv[k % gv.len()].clone());
                k /= gv.len();
            }
            let args: Vec<T> = c.args.iter().map(|t| subst_vars(t, &|v| if let T::V(i) = v { q.get(*i as usize).cloned() } else { None })).collect();
            if !holds(c.rel, &args) {
                continue;
            }
            let mut qt = q.clone();
            if qt.is_empty() {
                qt.push(T::A(0));
            }
            let covered = if nv == 0 { !out.answers.is_empty() } else { sets.iter().any(|s| s.contains(&qt)) };
            if !covered {
                viols.push(mk(
                    "missing-solution",
                    format!("{}({}) is in the relation but no answer covers it ({} answers, search {})", c.rel.name(), args.iter().map(|t| t.to_string()).collect::<Vec<_>>().join(", "), out.answers.len(), if finite { "ended" } else { "cut off" }),
                    String::new(),
                ));
                break;
            }
        }
    }
    // --- answer counts of member / member1 in terminating modes with a ground list
    if finite && (c.rel == Rel::Member || c.rel == Rel::Member1) && c.args[1].is_ground() && (c.args[0].is_var() || c.args[0].is_ground()) {
        if let Some(l) = elems_of(&c.args[1]) {
            let expected = match (&c.args[0], c.rel) {
                (T::V(_), Rel::Member) => l.len(),
                (T::V(_), _) => {
                    let mut d = l.clone();
                    d.sort();
                    d.dedup();
                    d.len()
                }
                (x, Rel::Member) => l.iter().filter(|e| *e == x).count(),
                (x, _) => l.iter().any(|e| e == x) as usize,
            };
            if out.answers.len() != expected {
                viols.push(mk("answer-count", format!("{} answers, expected {} ({})", out.answers.len(), expected, if c.rel == Rel::Member { "one per matching position" } else { "one per distinct matching value" }), String::new()));
            }
        }
    }
    // --- finite failure: in a mode whose answer set is finite because a list of closed length
    // bounds the recursion, the search has to END (a relation that has given all its answers and
    // then searches forever never says "no more", and never says "no" when there is none)
    if !finite && out.end != End::Limit && bounded_mode(c.rel, &c.args) {
        viols.push(mk(
            "no-termination",
            format!("{} has finitely many answers in this mode (a list of fixed length bounds it) but the search did not end within {} engine steps ({} answers so far)", sig, 400_000, out.answers.len()),
            String::new(),
        ));
    }
    let _ = Ans::to_string;
    (viols, if finite { "terminating-mode" } else { "non-terminating-mode" })
}

pub fn run(ctx: &mut Ctx) {
    let quick = ctx.quick();
    ctx.set("rule", json!("E3: member, member1, append, rember, permute, distinct, cons, first, rest, empty in every combination of argument choices (elements: 1, 2, fresh; lists: [], [1], [1,2], [2,1,2], [1,2,3], [v,2], [1|v], fresh, ...; plus aliased-argument cases), up to 120 answers / 400000 engine steps. Soundness: every instance (reified variables over 7 values, respecting the reported disequalities) of every answer satisfies the Vec definition of the relation. Completeness: every satisfying ground tuple of a small universe (larger when the search ended) is an instance of some answer. member yields one answer per matching position, member1 one per distinct matching value. distinct_nontrivial = modes with answers."));
    let cs = cases(quick);
    let sel: Vec<usize> = match &ctx.replay {
        Some(r) if r.family == "c24" => vec![r.index],
        Some(_) => vec![],
        None => (0..cs.len()).collect(),
    };
    let res = par_map(&sel, |_, i| check(&cs[*i], *i));
    for (vs, class) in res {
        ctx.hist(class, 1);
        for v in vs {
            ctx.violation(v);
        }
    }
    for c in cs.iter().step_by((cs.len() / 6).max(1)).take(6) {
        ctx.sample(json!({"mode": c.text()}));
    }
    ctx.set("evaluations", json!(sel.len()));
    ctx.set("modes", json!(sel.len()));
    ctx.set("states", json!(sel.len()));
    ctx.set("transitions", json!(sel.len()));
    ctx.set("traces_validated_against_impl", json!(sel.len()));
    let nt = ctx.histogram.get("terminating-mode").copied().unwrap_or(0);
    ctx.set("distinct_nontrivial", json!(nt));
    if ctx.replay.is_none() {
        ctx.require_nonzero("terminating-mode");
        ctx.require_nonzero("non-terminating-mode");
    }
    ctx.assume("modes whose search does not end are judged on the first 120 answers / 400000 steps: completeness there is only required for a small universe");
}
