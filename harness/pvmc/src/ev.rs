//! Evidence files, violations, known findings, replay files.
use serde_json::{json, Map, Value};
use std::collections::BTreeMap;
use std::time::Instant;

pub fn verif_dir() -> String {
    std::env::var("PVMC_VERIF_DIR").unwrap_or_else(|_| "/verif".to_string())
}

#[derive(Clone, Debug)]
pub struct Violation {
    /// short class, e.g. "panic", "unsound-answer", "missing-answer", "order"
    pub kind: String,
    /// signature used by known-finding matchers: the failing input in surface-like text
    pub sig: String,
    /// panic site or call site when applicable ("src/lterm.rs:143")
    pub site: String,
    /// human-readable expected/observed
    pub detail: String,
    /// coordinates for replay: family name and case index (and schedule if any)
    pub family: String,
    pub index: usize,
    pub schedule: Vec<usize>,
    /// everything needed to re-run exactly this case (family-specific)
    pub data: Value,
}

/// A single case to re-run (from a replay file or from crash triage).
#[derive(Clone, Debug)]
pub struct Replay {
    pub family: String,
    pub index: usize,
    pub schedule: Vec<usize>,
    pub data: Value,
}

pub struct Ctx {
    pub property: String,
    pub tier: String,
    pub seed: i64,
    pub start: Instant,
    pub coverage: Map<String, Value>,
    pub assumptions: Vec<String>,
    pub violations: Vec<Violation>,
    pub histogram: BTreeMap<String, u64>,
    pub samples: Vec<Value>,
    pub caps_hit: Vec<String>,
    /// Some(index) when replaying a single case
    pub replay: Option<Replay>,
    pub machinery_errors: Vec<String>,
}

impl Ctx {
    pub fn new(property: &str, tier: &str) -> Ctx {
        let seed = std::env::var("VERIF_SEED").ok().and_then(|s| s.parse().ok()).unwrap_or(0);
        Ctx {
            property: property.to_string(),
            tier: tier.to_string(),
            seed,
            start: Instant::now(),
            coverage: Map::new(),
            assumptions: vec![],
            violations: vec![],
            histogram: BTreeMap::new(),
            samples: vec![],
            caps_hit: vec![],
            replay: None,
            machinery_errors: vec![],
        }
    }
    pub fn quick(&self) -> bool {
        self.tier == "quick"
    }
    pub fn add(&mut self, key: &str, n: u64) {
        let cur = self.coverage.get(key).and_then(|v| v.as_u64()).unwrap_or(0);
        self.coverage.insert(key.to_string(), json!(cur + n));
    }
    pub fn set(&mut self, key: &str, v: Value) {
        self.coverage.insert(key.to_string(), v);
    }
    pub fn hist(&mut self, key: &str, n: u64) {
        *self.histogram.entry(key.to_string()).or_insert(0) += n;
    }
    pub fn sample(&mut self, v: Value) {
        if self.samples.len() < 12 {
            self.samples.push(v);
        }
    }
    pub fn assume(&mut self, s: &str) {
        if !self.assumptions.iter().any(|a| a == s) {
            self.assumptions.push(s.to_string());
        }
    }
    pub fn violation(&mut self, v: Violation) {
        self.violations.push(v);
    }
    /// A category the family is built to reach was not reached: the run is vacuous, which is a
    /// machinery failure (exit 2), never a verdict.
    pub fn require_nonzero(&mut self, key: &str) {
        if self.replay.is_some() {
            return;
        }
        if self.histogram.get(key).copied().unwrap_or(0) == 0 {
            self.machinery_errors
                .push(format!("vacuity: outcome category '{}' was never reached", key));
        }
    }
    /// Is this (family, index) selected? Always true unless replaying.
    pub fn selected(&self, family: &str, index: usize) -> bool {
        match &self.replay {
            None => true,
            Some(r) => r.family == family && r.index == index,
        }
    }
}

#[derive(Clone, Debug)]
pub struct Finding {
    pub property: String,
    pub id: String,
    pub kind: Option<String>,
    pub site: Option<String>,
    pub sig_contains: Vec<String>,
    pub sig_equals: Option<String>,
    pub family: Option<String>,
    pub what: String,
}

pub fn load_findings() -> Result<Vec<Finding>, String> {
    let path = format!("{}/known_findings.json", verif_dir());
    let text = match std::fs::read_to_string(&path) {
        Ok(t) => t,
        Err(_) => return Ok(vec![]),
    };
    let v: Value = serde_json::from_str(&text).map_err(|e| format!("{}: {}", path, e))?;
    let mut out = vec![];
    for f in v.get("findings").and_then(|f| f.as_array()).cloned().unwrap_or_default() {
        let s = |k: &str| f.get(k).and_then(|x| x.as_str()).map(|x| x.to_string());
        let m = f.get("match").cloned().unwrap_or(json!({}));
        let ms = |k: &str| m.get(k).and_then(|x| x.as_str()).map(|x| x.to_string());
        out.push(Finding {
            property: s("property").ok_or("finding without property")?,
            id: s("id").ok_or("finding without id")?,
            what: s("what").unwrap_or_default(),
            kind: ms("kind"),
            site: ms("site"),
            family: ms("family"),
            sig_equals: ms("sig_equals"),
            sig_contains: m
                .get("sig_contains")
                .and_then(|x| x.as_array())
                .map(|a| a.iter().filter_map(|x| x.as_str().map(|s| s.to_string())).collect())
                .unwrap_or_default(),
        });
    }
    Ok(out)
}

impl Finding {
    pub fn matches(&self, property: &str, v: &Violation) -> bool {
        if self.property != property {
            return false;
        }
        // an entry with no criteria at all would swallow a whole property: never matches
        if self.kind.is_none()
            && self.site.is_none()
            && self.sig_equals.is_none()
            && self.sig_contains.is_empty()
            && self.family.is_none()
        {
            return false;
        }
        if let Some(k) = &self.kind {
            if *k != v.kind {
                return false;
            }
        }
        if let Some(s) = &self.site {
            if *s != v.site {
                return false;
            }
        }
        if let Some(f) = &self.family {
            if *f != v.family {
                return false;
            }
        }
        if let Some(s) = &self.sig_equals {
            if *s != v.sig {
                return false;
            }
        }
        self.sig_contains.iter().all(|c| v.sig.contains(c.as_str()))
    }
}

/// Writes evidence, prints KNOWN-FINDING / VIOLATION lines, returns the process exit code.
pub fn finish(mut ctx: Ctx) -> i32 {
    let findings = match load_findings() {
        Ok(f) => f,
        Err(e) => {
            eprintln!("machinery error: {}", e);
            return 2;
        }
    };
    let mut known: BTreeMap<String, (String, usize, String)> = BTreeMap::new();
    let mut fresh: Vec<Violation> = vec![];
    for v in ctx.violations.drain(..) {
        match findings.iter().find(|f| f.matches(&ctx.property, &v)) {
            Some(f) => {
                let e = known.entry(f.id.clone()).or_insert((f.what.clone(), 0, v.sig.clone()));
                e.1 += 1;
            }
            None => fresh.push(v),
        }
    }
    let wall = ctx.start.elapsed().as_secs_f64();
    if let Ok(path) = std::env::var("PVMC_DUMP_VIOLATIONS") {
        // analysis aid: every new violation as one JSON line
        let mut text = String::new();
        for v in &fresh {
            text.push_str(&json!({"kind": v.kind, "family": v.family, "index": v.index, "input": v.sig, "site": v.site, "detail": v.detail, "schedule": v.schedule}).to_string());
            text.push('\n');
        }
        let _ = std::fs::write(path, text);
    }
    // replay files for new violations (at most 20 written, all counted)
    let mut replay_paths = vec![];
    let _ = std::fs::create_dir_all(format!("{}/replays", verif_dir()));
    // order: first occurrence of every kind first, so that the listed replays show the variety
    {
        let mut seen: BTreeMap<String, usize> = BTreeMap::new();
        let mut ranked: Vec<(usize, usize)> = fresh
            .iter()
            .enumerate()
            .map(|(i, v)| {
                let c = seen.entry(v.kind.clone()).or_insert(0);
                *c += 1;
                (*c, i)
            })
            .collect();
        ranked.sort();
        let reordered: Vec<Violation> = ranked.iter().map(|(_, i)| fresh[*i].clone()).collect();
        fresh = reordered;
        if !seen.is_empty() {
            println!("violations by kind: {:?}", seen);
        }
    }
    for (i, v) in fresh.iter().enumerate() {
        if i >= 20 {
            break;
        }
        let mut h: u64 = 1469598103934665603;
        for b in format!("{}|{}|{}|{}|{:?}", v.kind, v.family, v.index, v.sig, v.schedule).bytes() {
            h ^= b as u64;
            h = h.wrapping_mul(1099511628211);
        }
        let path = format!("{}/replays/{}-{:016x}.json", verif_dir(), ctx.property, h);
        let body = json!({
            "property": ctx.property,
            "tier": ctx.tier,
            "family": v.family,
            "index": v.index,
            "schedule": v.schedule,
            "data": v.data,
            "kind": v.kind,
            "site": v.site,
            "input": v.sig,
            "detail": v.detail,
        });
        let _ = std::fs::write(&path, serde_json::to_string_pretty(&body).unwrap());
        replay_paths.push(path);
    }
    for (id, (what, n, example)) in &known {
        println!(
            "KNOWN-FINDING: property={} {} [{}] ({} case(s) this run, e.g. {})",
            ctx.property, what, id, n, example
        );
    }
    for (v, p) in fresh.iter().zip(replay_paths.iter()) {
        println!("VIOLATION property={} replay={}", ctx.property, p);
        println!("  kind={} family={} index={} site={}", v.kind, v.family, v.index, v.site);
        println!("  input: {}", v.sig);
        println!("  {}", v.detail);
    }
    if fresh.len() > replay_paths.len() {
        println!("  ... and {} more violations", fresh.len() - replay_paths.len());
    }
    let exhaustive = ctx.caps_hit.is_empty();
    let mut cov = ctx.coverage.clone();
    cov.insert("samples".into(), Value::Array(ctx.samples.clone()));
    cov.insert("exhaustive".into(), json!(exhaustive));
    cov.insert("caps_hit".into(), json!(ctx.caps_hit));
    cov.insert(
        "outcome_histogram".into(),
        Value::Object(ctx.histogram.iter().map(|(k, v)| (k.clone(), json!(v))).collect()),
    );
    cov.insert(
        "known_findings_hit".into(),
        Value::Object(known.iter().map(|(k, v)| (k.clone(), json!(v.1))).collect()),
    );
    // generic keys are always present as well
    for k in ["states", "transitions", "traces_validated_against_impl", "evaluations", "distinct_nontrivial"] {
        cov.entry(k.to_string()).or_insert(json!(0));
    }
    let ev = json!({
        "property_id": ctx.property,
        "tier": ctx.tier,
        "seed": ctx.seed,
        "level": "model_checking",
        "coverage": Value::Object(cov),
        "assumptions": ctx.assumptions,
        "wall_s": wall,
        "violations": fresh.len(),
    });
    if ctx.replay.is_none() {
        let _ = std::fs::create_dir_all(format!("{}/evidence", verif_dir()));
        let path = format!("{}/evidence/{}.json", verif_dir(), ctx.property);
        if let Err(e) = std::fs::write(&path, serde_json::to_string_pretty(&ev).unwrap() + "\n") {
            eprintln!("machinery error: cannot write {}: {}", path, e);
            return 2;
        }
    }
    if !ctx.machinery_errors.is_empty() {
        for e in &ctx.machinery_errors {
            eprintln!("machinery error: {}", e);
        }
        return 2;
    }
    println!(
        "{} {}: {} new violation(s), {} known finding(s), {:.1}s{}",
        ctx.property,
        ctx.tier,
        fresh.len(),
        known.len(),
        wall,
        if exhaustive { "" } else { " (caps hit, see evidence)" }
    );
    if fresh.is_empty() {
        0
    } else {
        1
    }
}

// ---------------------------------------------------------------------------------------------
// Progress slots: each worker thread records the case it is about to run, so that a process
// abort (stack overflow, allocation failure) or a hang can be attributed to a case by the
// supervisor, which then re-runs the candidates alone to confirm.

use std::cell::RefCell;
use std::sync::atomic::{AtomicUsize, Ordering};

static SLOT_COUNTER: AtomicUsize = AtomicUsize::new(0);

thread_local! {
    static SLOT: RefCell<Option<std::fs::File>> = RefCell::new(None);
}

pub fn progress(family: &str, index: usize, data: &Value) {
    let dir = match std::env::var("PVMC_PROGRESS") {
        Ok(d) => d,
        Err(_) => return,
    };
    SLOT.with(|s| {
        let mut s = s.borrow_mut();
        if s.is_none() {
            let n = SLOT_COUNTER.fetch_add(1, Ordering::SeqCst);
            *s = std::fs::File::create(format!("{}/slot-{}", dir, n)).ok();
        }
        if let Some(f) = s.as_ref() {
            use std::os::unix::fs::FileExt;
            let line = format!("{}\t{}\t{}\n", family, index, data);
            let _ = f.write_all_at(line.as_bytes(), 0);
        }
    });
}

/// Marks this thread's slot as idle (no case in flight).
pub fn progress_clear() {
    SLOT.with(|s| {
        if let Some(f) = s.borrow().as_ref() {
            use std::os::unix::fs::FileExt;
            let _ = f.write_all_at(b"\n", 0);
        }
    });
}

/// Age in seconds of the oldest case still in flight (a slot that names a case and has not been
/// rewritten since), if any.
pub fn oldest_in_flight_s(dir: &str) -> Option<f64> {
    let mut worst: Option<f64> = None;
    if let Ok(rd) = std::fs::read_dir(dir) {
        for e in rd.flatten() {
            let busy = std::fs::read_to_string(e.path()).map(|t| t.lines().next().map(|l| l.splitn(3, '\t').count() == 3).unwrap_or(false)).unwrap_or(false);
            if !busy {
                continue;
            }
            if let Ok(age) = e.metadata().and_then(|m| m.modified()).map(|t| t.elapsed().map(|d| d.as_secs_f64()).unwrap_or(0.0)) {
                worst = Some(worst.map_or(age, |w: f64| w.max(age)));
            }
        }
    }
    worst
}

pub fn read_progress(dir: &str) -> Vec<Replay> {
    let mut out: Vec<Replay> = vec![];
    if let Ok(rd) = std::fs::read_dir(dir) {
        for e in rd.flatten() {
            if let Ok(text) = std::fs::read_to_string(e.path()) {
                if let Some(line) = text.lines().next() {
                    let parts: Vec<&str> = line.splitn(3, '\t').collect();
                    if parts.len() == 3 {
                        if let (Ok(index), Ok(data)) = (parts[1].parse::<usize>(), serde_json::from_str::<Value>(parts[2])) {
                            if !out.iter().any(|r| r.family == parts[0] && r.index == index && r.data == data) {
                                out.push(Replay { family: parts[0].to_string(), index, schedule: vec![], data });
                            }
                        }
                    }
                }
            }
        }
    }
    out
}
