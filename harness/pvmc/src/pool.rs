//! Worker pool: parallel map over plain-data cases on threads with large stacks.
use std::sync::atomic::{AtomicUsize, Ordering};
use std::sync::Mutex;

pub fn workers() -> usize {
    std::env::var("PVMC_WORKERS")
        .ok()
        .and_then(|s| s.parse().ok())
        .unwrap_or_else(|| std::thread::available_parallelism().map(|n| n.get()).unwrap_or(4).min(16))
}

const STACK: usize = 256 << 20;

/// Applies `f` to every item (with its index) on a pool of threads; results in input order.
pub fn par_map<I: Sync, O: Send, F: Fn(usize, &I) -> O + Sync>(items: &[I], f: F) -> Vec<O> {
    let n = items.len();
    let next = AtomicUsize::new(0);
    let out: Mutex<Vec<Option<O>>> = Mutex::new((0..n).map(|_| None).collect());
    let nw = workers().min(n.max(1));
    let chunk = (n / (nw * 16)).clamp(1, 64);
    std::thread::scope(|s| {
        let mut hs = vec![];
        for _ in 0..nw {
            let h = std::thread::Builder::new()
                .stack_size(STACK)
                .spawn_scoped(s, || {
                    let mut local: Vec<(usize, O)> = vec![];
                    loop {
                        // chunks keep contention low for very cheap cases
                        let start = next.fetch_add(chunk, Ordering::Relaxed);
                        if start >= n {
                            break;
                        }
                        for i in start..(start + chunk).min(n) {
                            local.push((i, f(i, &items[i])));
                        }
                        if local.len() >= 4096 {
                            let mut o = out.lock().unwrap();
                            for (i, r) in local.drain(..) {
                                o[i] = Some(r);
                            }
                        }
                    }
                    crate::ev::progress_clear();
                    let mut o = out.lock().unwrap();
                    for (i, r) in local.drain(..) {
                        o[i] = Some(r);
                    }
                })
                .expect("spawn worker");
            hs.push(h);
        }
        for h in hs {
            h.join().expect("worker thread died (harness bug)");
        }
    });
    out.into_inner().unwrap().into_iter().map(|o| o.unwrap()).collect()
}

/// Runs `f` once on a big-stack thread and returns its result.
pub fn on_big_stack<O: Send, F: FnOnce() -> O + Send>(f: F) -> O {
    std::thread::scope(|s| {
        std::thread::Builder::new()
            .stack_size(STACK)
            .spawn_scoped(s, f)
            .expect("spawn")
            .join()
            .expect("thread died (harness bug)")
    })
}
