use pvmc::ev::{self, Ctx};

fn usage() -> ! {
    eprintln!("usage: pvmc <C01..C24> <quick|thorough> [--replay <file>]");
    std::process::exit(2);
}

fn main() {
    let args: Vec<String> = std::env::args().collect();
    if args.len() < 3 {
        usage();
    }
    let id = args[1].as_str();
    let tier = match std::env::var("VERIF_TIER") {
        Ok(t) if t == "quick" || t == "thorough" => t,
        _ => args[2].clone(),
    };
    if tier != "quick" && tier != "thorough" {
        usage();
    }
    pvmc::run::install_quiet_panic_hook();
    let mut ctx = Ctx::new(id, &tier);
    if let Some(pos) = args.iter().position(|a| a == "--replay") {
        let path = args.get(pos + 1).unwrap_or_else(|| usage());
        let text = std::fs::read_to_string(path).unwrap_or_else(|e| {
            eprintln!("cannot read replay file {}: {}", path, e);
            std::process::exit(2);
        });
        let v: serde_json::Value = serde_json::from_str(&text).unwrap_or_else(|e| {
            eprintln!("bad replay file: {}", e);
            std::process::exit(2);
        });
        let family = v["family"].as_str().unwrap_or("").to_string();
        let index = v["index"].as_u64().unwrap_or(0) as usize;
        let schedule: Vec<usize> = v["schedule"]
            .as_array()
            .map(|a| a.iter().filter_map(|x| x.as_u64().map(|n| n as usize)).collect())
            .unwrap_or_default();
        if let Some(t) = v["tier"].as_str() {
            ctx.tier = t.to_string();
        }
        ctx.replay = Some((family, index, schedule));
    }
    match id {
        "C18" => pvmc::c18::run(&mut ctx),
        _ => {
            eprintln!("unknown property {}", id);
            std::process::exit(2);
        }
    }
    std::process::exit(ev::finish(ctx));
}
