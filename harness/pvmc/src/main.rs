use pvmc::ev::{self, Ctx, Replay};
use serde_json::{json, Value};
use std::process::{Command, Stdio};
use std::time::{Duration, Instant};

fn usage() -> ! {
    eprintln!("usage: pvmc <C01..C24> <quick|thorough> [--replay <file>]");
    std::process::exit(2);
}

fn parse_replay(v: &Value) -> Replay {
    Replay {
        family: v["family"].as_str().unwrap_or("").to_string(),
        index: v["index"].as_u64().unwrap_or(0) as usize,
        schedule: v["schedule"]
            .as_array()
            .map(|a| a.iter().filter_map(|x| x.as_u64().map(|n| n as usize)).collect())
            .unwrap_or_default(),
        data: v.get("data").cloned().unwrap_or(Value::Null),
    }
}

fn child_main(id: &str, tier: &str, replay: Option<Replay>) -> i32 {
    pvmc::run::install_quiet_panic_hook();
    let mut ctx = Ctx::new(id, tier);
    ctx.replay = replay;
    if !pvmc::dispatch(id, &mut ctx) {
        eprintln!("unknown property {}", id);
        return 2;
    }
    ev::finish(ctx)
}

/// Runs the check in a child process so that an abort (stack overflow, OOM) or a hang of the
/// library is attributed to a case and reported as a violation instead of killing the check.
fn supervise(id: &str, tier: &str, replay_json: Option<String>) -> i32 {
    let exe = std::env::current_exe().expect("current_exe");
    let dir = format!("{}/.progress-{}-{}", ev::verif_dir(), id, std::process::id());
    let _ = std::fs::remove_dir_all(&dir);
    std::fs::create_dir_all(&dir).expect("progress dir");
    let wall_cap = Duration::from_secs(
        std::env::var("PVMC_WALL_CAP_S").ok().and_then(|s| s.parse().ok()).unwrap_or(if tier == "quick" { 900 } else { 6 * 3600 }),
    );
    // a single case in flight for longer than this is a hang of the library (cases take
    // milliseconds to seconds); the child is stopped and the cases in flight are triaged
    let stall_cap = std::env::var("PVMC_STALL_S").ok().and_then(|s| s.parse::<f64>().ok()).unwrap_or(if tier == "quick" { 90.0 } else { 600.0 });
    let run_child = |replay: Option<&str>, cap: Duration, quiet: bool| -> (Option<i32>, bool) {
        let mut cmd = Command::new(&exe);
        cmd.arg(id).arg(tier).env("PVMC_CHILD", "1").env("PVMC_PROGRESS", &dir);
        if let Some(r) = replay {
            cmd.env("PVMC_REPLAY_JSON", r);
        }
        if quiet {
            cmd.stdout(Stdio::null()).stderr(Stdio::null());
        }
        let mut child = cmd.spawn().expect("spawn child");
        let start = Instant::now();
        let mut polls = 0u64;
        loop {
            match child.try_wait() {
                Ok(Some(st)) => return (st.code(), false),
                Ok(None) => {
                    polls += 1;
                    let stalled = replay.is_none() && polls % 100 == 0 && ev::oldest_in_flight_s(&dir).map_or(false, |a| a > stall_cap);
                    if start.elapsed() > cap || stalled {
                        let _ = child.kill();
                        let _ = child.wait();
                        return (None, true);
                    }
                    std::thread::sleep(Duration::from_millis(20));
                }
                Err(_) => return (None, false),
            }
        }
    };
    let (code, timed_out) = run_child(replay_json.as_deref(), wall_cap, false);
    let result = match code {
        Some(c) if c == 0 || c == 1 || c == 2 => c,
        // a panic that escaped to the top of the child is a bug of the harness itself (library
        // panics are caught around every call into the library): never a verdict
        Some(101) => {
            eprintln!("machinery error: the harness panicked (see the 'harness panic' lines above)");
            2
        }
        _ => {
            // abnormal end: find the culprit among the cases that were in flight
            let candidates = ev::read_progress(&dir);
            eprintln!(
                "child {} ({} case(s) in flight); re-running them one at a time",
                if timed_out { "exceeded the wall cap or a case stalled".to_string() } else { format!("ended abnormally ({:?})", code) },
                candidates.len()
            );
            let mut confirmed: Vec<(Replay, String)> = vec![];
            let mut reported = false;
            let outcomes: Vec<(Option<i32>, bool)> = std::thread::scope(|sc| {
                let hs: Vec<_> = candidates
                    .iter()
                    .map(|c| {
                        let rj = json!({"family": c.family, "index": c.index, "schedule": c.schedule, "data": c.data}).to_string();
                        let run_child = &run_child;
                        sc.spawn(move || run_child(Some(&rj), Duration::from_secs(120), false))
                    })
                    .collect();
                hs.into_iter().map(|h| h.join().unwrap_or((None, false))).collect()
            });
            for (c, (cc, to)) in candidates.iter().zip(outcomes) {
                match cc {
                    Some(0) => {}
                    Some(1) => reported = true,
                    Some(2) | Some(101) => {}
                    other => confirmed.push((c.clone(), if to { "hang (no result within 120 s)".to_string() } else { format!("process abort ({:?}; stack overflow or fatal runtime error)", other) })),
                }
            }
            if confirmed.is_empty() && !reported {
                eprintln!("machinery error: the abnormal end could not be attributed to a case");
                2
            } else {
                let _ = std::fs::create_dir_all(format!("{}/replays", ev::verif_dir()));
                for (c, why) in &confirmed {
                    let path = format!("{}/replays/{}-crash-{}-{}.json", ev::verif_dir(), id, c.family, c.index);
                    let body = json!({"property": id, "tier": tier, "family": c.family, "index": c.index, "schedule": c.schedule, "data": c.data, "kind": "crash", "detail": why});
                    let _ = std::fs::write(&path, serde_json::to_string_pretty(&body).unwrap());
                    println!("VIOLATION property={} replay={}", id, path);
                    println!("  kind=crash family={} index={} data={}", c.family, c.index, c.data);
                    println!("  {}", why);
                }
                if replay_json.is_none() {
                    let evd = json!({
                        "property_id": id, "tier": tier, "seed": 0, "level": "model_checking",
                        "coverage": {"evaluations": candidates.len(), "distinct_nontrivial": confirmed.len(), "exhaustive": false,
                                     "samples": confirmed.iter().map(|(c, w)| json!({"family": c.family, "index": c.index, "data": c.data, "outcome": w})).collect::<Vec<_>>(),
                                     "explanation": "the exploration aborted; only the crash triage ran"},
                        "wall_s": 0.0, "violations": confirmed.len().max(1)
                    });
                    let _ = std::fs::create_dir_all(format!("{}/evidence", ev::verif_dir()));
                    let _ = std::fs::write(format!("{}/evidence/{}.json", ev::verif_dir(), id), serde_json::to_string_pretty(&evd).unwrap());
                }
                1
            }
        }
    };
    let _ = std::fs::remove_dir_all(&dir);
    result
}

fn main() {
    let args: Vec<String> = std::env::args().collect();
    if args.len() < 3 {
        usage();
    }
    if args[1] == "gen" {
        // pvmc gen <ID> <tier> <dir>: writes the generated surface programs
        if args.len() < 5 {
            usage();
        }
        match pvmc::surface::generate(&args[2], args[3] == "quick", &args[4]) {
            Ok(n) => {
                println!("generated {} programs for {} ({})", n, args[2], args[3]);
                std::process::exit(0);
            }
            Err(e) => {
                eprintln!("machinery error: cannot write generated sources: {}", e);
                std::process::exit(2);
            }
        }
    }
    let id = args[1].clone();
    // the tier named on the command line wins; VERIF_TIER is only a fallback
    let tier = args[2].clone();
    if tier != "quick" && tier != "thorough" {
        usage();
    }
    if std::env::var("PVMC_CHILD").is_ok() {
        let replay = std::env::var("PVMC_REPLAY_JSON")
            .ok()
            .and_then(|s| serde_json::from_str::<Value>(&s).ok())
            .map(|v| parse_replay(&v));
        std::process::exit(child_main(&id, &tier, replay));
    }
    let mut replay_json = None;
    let mut tier = tier;
    if let Some(pos) = args.iter().position(|a| a == "--replay") {
        let path = args.get(pos + 1).unwrap_or_else(|| usage());
        let text = std::fs::read_to_string(path).unwrap_or_else(|e| {
            eprintln!("cannot read replay file {}: {}", path, e);
            std::process::exit(2);
        });
        let v: Value = serde_json::from_str(&text).unwrap_or_else(|e| {
            eprintln!("bad replay file: {}", e);
            std::process::exit(2);
        });
        if let Some(t) = v["tier"].as_str() {
            tier = t.to_string();
        }
        replay_json = Some(v.to_string());
    }
    std::process::exit(supervise(&id, &tier, replay_json));
}
