//! Operational reference interpreter for pure programs (R3/R4): depth-first, list-returning,
//! with disequality constraints, lexical scoping, committed choice and pattern matching.
//! Written from the documented meaning of the surface language, not from the implementation.
use crate::ast::*;
use crate::refm::{subst_goal, AnsSet, Subst};

#[derive(Clone, Debug)]
pub struct St {
    pub s: Subst,
    pub neqs: Vec<(T, T)>,
}

impl St {
    pub fn new() -> St {
        St { s: Subst::new(), neqs: vec![] }
    }
    fn consistent(&self) -> bool {
        self.neqs.iter().all(|(a, b)| {
            let mut t = self.s.clone();
            !matches!(t.unify(a, b), Some(0))
        })
    }
    pub fn eq(&self, a: &T, b: &T) -> Option<St> {
        let mut n = self.clone();
        n.s.unify(a, b)?;
        if n.consistent() {
            Some(n)
        } else {
            None
        }
    }
    pub fn neq(&self, a: &T, b: &T) -> Option<St> {
        let mut t = self.s.clone();
        match t.unify(a, b) {
            Some(0) => None,
            None => Some(self.clone()),
            Some(_) => {
                let mut n = self.clone();
                n.neqs.push((a.clone(), b.clone()));
                Some(n)
            }
        }
    }
    pub fn answer(&self, q: &[T]) -> AnsSet {
        AnsSet {
            tuple: q.iter().map(|t| self.s.apply(t)).collect(),
            neqs: self.neqs.iter().map(|(a, b)| vec![(self.s.apply(a), self.s.apply(b))]).collect(),
        }
    }
}

pub struct Ev {
    pub next_var: u32,
    pub fuel: usize,
    pub out_of_fuel: bool,
}

/// Replaces every `_` by a new variable.
fn dewild(t: &T, next: &mut u32) -> T {
    match t {
        T::W => {
            let v = T::V(*next);
            *next += 1;
            v
        }
        T::Cons(h, tl) => T::cons(dewild(h, next), dewild(tl, next)),
        T::Cmp(tag, fs) => T::Cmp(*tag, fs.iter().map(|f| dewild(f, next)).collect()),
        _ => t.clone(),
    }
}

fn rename_var(g: &G, from: u32, to: u32) -> G {
    subst_goal(g, from, &T::V(to))
}

impl Ev {
    pub fn new(first_free_var: u32) -> Ev {
        Ev { next_var: first_free_var, fuel: 200_000, out_of_fuel: false }
    }

    pub fn goals(&mut self, gs: &[G], st: St) -> Vec<St> {
        let mut cur = vec![st];
        for g in gs {
            let mut next = vec![];
            for s in cur {
                next.extend(self.goal(g, s));
            }
            cur = next;
        }
        cur
    }

    /// The documented expansion of a pattern-match arm alternative: the matched term in the
    /// outer scope, the pattern's names as new variables local to the arm, then the body.
    fn arm(&mut self, t: &T, pat: &T, body: &[G]) -> Vec<G> {
        let mut pv = vec![];
        pat.vars(&mut pv);
        let mut p2 = pat.clone();
        let mut b2: Vec<G> = body.to_vec();
        for v in pv {
            if let T::V(i) = v {
                let nv = self.next_var;
                self.next_var += 1;
                p2 = p2.map_vars(&mut |x| if *x == T::V(i) { T::V(nv) } else { x.clone() });
                b2 = b2.iter().map(|g| rename_var(g, i, nv)).collect();
            }
        }
        let mut out = vec![G::Eq(t.clone(), p2)];
        out.extend(b2);
        out
    }

    pub fn goal(&mut self, g: &G, st: St) -> Vec<St> {
        if self.fuel == 0 {
            self.out_of_fuel = true;
            return vec![];
        }
        self.fuel -= 1;
        match g {
            G::Succeed => vec![st],
            G::Fail => vec![],
            G::Eq(a, b) => {
                let (a, b) = (dewild(a, &mut self.next_var), dewild(b, &mut self.next_var));
                st.eq(&a, &b).into_iter().collect()
            }
            G::Neq(a, b) => {
                let (a, b) = (dewild(a, &mut self.next_var), dewild(b, &mut self.next_var));
                st.neq(&a, &b).into_iter().collect()
            }
            G::Conj(gs) | G::Dfs(gs) | G::Project(_, gs) => self.goals(gs, st),
            G::Conde(arms) => {
                let mut out = vec![];
                for a in arms {
                    out.extend(self.goals(a, st.clone()));
                }
                out
            }
            G::Disj(gs) => {
                let mut out = vec![];
                for x in gs {
                    out.extend(self.goal(x, st.clone()));
                }
                out
            }
            G::Fresh(vs, gs) => {
                let mut body: Vec<G> = gs.clone();
                for v in vs {
                    let nv = self.next_var;
                    self.next_var += 1;
                    body = body.iter().map(|x| rename_var(x, *v, nv)).collect();
                }
                self.goals(&body, st)
            }
            G::Closure(b) => self.goal(b, st),
            G::Conda(arms) => {
                for a in arms {
                    if a.is_empty() {
                        continue;
                    }
                    let heads = self.goal(&a[0], st.clone());
                    if !heads.is_empty() {
                        let mut out = vec![];
                        for h in heads {
                            out.extend(self.goals(&a[1..], h));
                        }
                        return out;
                    }
                }
                vec![]
            }
            G::Condu(arms) => {
                for a in arms {
                    if a.is_empty() {
                        continue;
                    }
                    let heads = self.goal(&a[0], st.clone());
                    if let Some(h) = heads.into_iter().next() {
                        return self.goals(&a[1..], h);
                    }
                }
                vec![]
            }
            G::Onceo(gs) => self.goals(gs, st).into_iter().take(1).collect(),
            // `loop { g }` answers g's answers over and over: the reference gives one round and
            // the caller judges a bounded prefix by membership
            G::Anyo(gs) => self.goals(gs, st),
            G::Match(kind, t, arms) => {
                let t = dewild(t, &mut self.next_var);
                let mut clauses: Vec<Vec<G>> = vec![];
                for (pats, body) in arms {
                    for p in pats {
                        clauses.push(self.arm(&t, p, body));
                    }
                }
                match kind {
                    MatchKind::Match | MatchKind::Matche => self.goal(&G::Conde(clauses), st),
                    MatchKind::Matcha => self.goal(&G::Conda(clauses), st),
                    MatchKind::Matchu => self.goal(&G::Condu(clauses), st),
                }
            }
            G::For(x, coll, body) | G::ForList(x, coll, body) => {
                let mut gs = vec![];
                for el in coll {
                    for b in body {
                        gs.push(subst_goal(b, *x, el));
                    }
                }
                self.goals(&gs, st)
            }
            G::Call(name, args) => {
                let a: Vec<T> = args.iter().map(|t| dewild(t, &mut self.next_var)).collect();
                let body = self.user_rel(name, &a);
                self.goal(&body, st)
            }
            G::Rel(rel, args) => {
                let a: Vec<T> = args.iter().map(|t| dewild(t, &mut self.next_var)).collect();
                let body = self.lib_rel(*rel, &a);
                self.goal(&body, st)
            }
            other => panic!("reference interpreter does not cover {}", other),
        }
    }

    fn fresh(&mut self) -> T {
        let v = T::V(self.next_var);
        self.next_var += 1;
        v
    }

    /// Definitions of the relations of `userrel`, from their documented meaning.
    fn user_rel(&mut self, name: &str, a: &[T]) -> G {
        match name {
            "same" => G::Eq(a[0].clone(), a[1].clone()),
            "neqo" => G::Neq(a[0].clone(), a[1].clone()),
            "pairo" => G::Eq(a[2].clone(), T::list(vec![a[0].clone(), a[1].clone()])),
            "lasto" => {
                // l = [y] and y = x, or l = [_ | t] and lasto(t, x)
                let (y, h, t) = (self.fresh(), self.fresh(), self.fresh());
                G::Conde(vec![
                    vec![G::Eq(a[0].clone(), T::list(vec![y.clone()])), G::Eq(y, a[1].clone())],
                    vec![G::Eq(a[0].clone(), T::cons(h, t.clone())), G::Call("lasto".into(), vec![t, a[1].clone()])],
                ])
            }
            "zipo" => {
                let (h, t, r) = (self.fresh(), self.fresh(), self.fresh());
                G::Conde(vec![
                    vec![G::Eq(a[0].clone(), T::Nil), G::Eq(a[1].clone(), T::Nil)],
                    vec![
                        G::Eq(a[0].clone(), T::cons(h.clone(), t.clone())),
                        G::Eq(a[1].clone(), T::cons(T::list(vec![h.clone(), h]), r.clone())),
                        G::Call("zipo".into(), vec![t, r]),
                    ],
                ])
            }
            "projo" => G::Eq(a[1].clone(), T::list(vec![a[0].clone()])),
            "cello" => {
                let w = self.fresh();
                G::Conde(vec![vec![G::Eq(a[0].clone(), T::cons(T::I(1), w.clone()))], vec![G::Eq(a[1].clone(), T::cons(T::I(2), w))]])
            }
            "botho" => G::Conj(vec![G::Eq(a[0].clone(), a[1].clone()), G::Eq(a[2].clone(), a[0].clone())]),
            "twiceo" => G::Conj(vec![G::Call("cello".into(), a.to_vec()), G::Call("cello".into(), a.to_vec())]),
            other => panic!("unknown user relation {}", other),
        }
    }

    /// Documented meaning of the library relations used in surface programs.
    fn lib_rel(&mut self, rel: Rel, a: &[T]) -> G {
        match rel {
            Rel::Member => {
                let (h, t) = (self.fresh(), self.fresh());
                G::Conde(vec![
                    vec![G::Eq(a[1].clone(), T::cons(a[0].clone(), self.fresh()))],
                    vec![G::Eq(a[1].clone(), T::cons(h, t.clone())), G::Rel(Rel::Member, vec![a[0].clone(), t])],
                ])
            }
            Rel::Append => {
                let (x, l1, l3) = (self.fresh(), self.fresh(), self.fresh());
                G::Conde(vec![
                    vec![G::Eq(a[0].clone(), T::Nil), G::Eq(a[1].clone(), a[2].clone())],
                    vec![
                        G::Eq(a[0].clone(), T::cons(x.clone(), l1.clone())),
                        G::Eq(a[2].clone(), T::cons(x, l3.clone())),
                        G::Rel(Rel::Append, vec![l1, a[1].clone(), l3]),
                    ],
                ])
            }
            Rel::ConsR => G::Eq(T::cons(a[0].clone(), a[1].clone()), a[2].clone()),
            Rel::Empty => G::Eq(T::Nil, a[0].clone()),
            Rel::First => G::Eq(a[0].clone(), T::cons(a[1].clone(), self.fresh())),
            Rel::Rest => G::Eq(a[0].clone(), T::cons(self.fresh(), a[1].clone())),
            other => panic!("library relation {} is not part of the surface families", other.name()),
        }
    }
}

/// Runs the reference on a program; None if it ran out of fuel (program outside the finite
/// fragment).
pub fn reference_answers(p: &Program) -> Option<Vec<AnsSet>> {
    let first_free = crate::run::nvars_of(p.nq, &p.body) as u32 + 1000;
    let mut ev = Ev::new(first_free);
    let q: Vec<T> = (0..p.nq).map(T::V).collect();
    let sts = ev.goals(&p.body, St::new());
    if ev.out_of_fuel {
        return None;
    }
    Some(sts.iter().map(|s| s.answer(&q)).collect())
}
