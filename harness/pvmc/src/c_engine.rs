//! C05 (DFS order), C06 (interleaving loses/invents nothing), C07 (fairness), C08 (committed
//! choice), parts of C09 (lazy, fused): E4 exploration of the real engine with scripted leaves.
use crate::e4::*;
use crate::ev::{Ctx, Violation};
use crate::pool::par_map;
use crate::run::panic_site;
use serde_json::{json, Value};

fn finite_scripts(quick: bool) -> Vec<Script> {
    let all = if quick {
        vec!["", "A", "DA", "AA", "AD", "DAA"]
    } else {
        vec!["", "A", "D", "AA", "DA", "AD", "ADA", "DAA", "DDA", "AAA"]
    };
    all.into_iter().map(Script::parse).collect()
}

fn leaf_choices(scripts: &[Script], encs: &[Enc]) -> Vec<(Script, Enc)> {
    let mut out = vec![];
    for s in scripts {
        for e in encs {
            // Delay and Pause encodings coincide for the empty script
            if s.items.is_empty() && s.tail == Tail::End && *e != Enc::Pause {
                continue;
            }
            out.push((s.clone(), *e));
        }
    }
    out
}

fn wrap_variants(t: &Tr) -> Vec<Tr> {
    let mut out = vec![t.clone(), Tr::Fresh(Box::new(t.clone())), Tr::Closure(Box::new(t.clone()))];
    // wrap the first child when the root is n-ary
    match t {
        Tr::Conj(v) | Tr::Conde(v) | Tr::Disj(v) if !v.is_empty() => {
            let mut w = v.clone();
            w[0] = Tr::Closure(Box::new(w[0].clone()));
            out.push(match t {
                Tr::Conj(_) => Tr::Conj(w),
                Tr::Conde(_) => Tr::Conde(w),
                _ => Tr::Disj(w),
            });
        }
        _ => {}
    }
    out
}

fn mk(kind: &str, family: &str, index: usize, case: &Case, detail: String, site: String) -> Violation {
    Violation { kind: kind.into(), sig: case.to_string(), site, detail, family: family.into(), index, schedule: vec![], data: Value::Null }
}

fn show(ts: &[Trace]) -> String {
    let f = |t: &Trace| t.iter().map(|(i, k)| format!("L{}#{}", i, k)).collect::<Vec<_>>().join(".");
    format!("[{}]", ts.iter().map(f).collect::<Vec<_>>().join(", "))
}

/// The deterministic case list of the finite families. `dfs`: C05 typing.
fn finite_cases(quick: bool, max_leaves: usize) -> Vec<Case> {
    let ops = ["conj", "conde", "disj"];
    let scripts = finite_scripts(quick);
    let full = leaf_choices(&scripts, &[Enc::Pause, Enc::Delay, Enc::Iter]);
    let reduced = leaf_choices(
        &["", "A", "DA", "AA"].iter().map(|s| Script::parse(s)).collect::<Vec<_>>(),
        &[Enc::Pause, Enc::Delay],
    );
    let mut out = vec![];
    for n in 1..=max_leaves {
        let choices = if n <= 2 || (n == 3 && !quick) { &full } else { &reduced };
        let assigns = product(choices, n);
        for sh in shapes(n, &ops, 0) {
            let variants = if n <= 3 { wrap_variants(&sh) } else { vec![sh.clone()] };
            for t in variants {
                for a in &assigns {
                    out.push(Case { tree: t.clone(), leaves: a.clone() });
                }
            }
        }
    }
    // static goals: the `Goal::succeed()` / `Goal::fail()` objects (what `true`, `false`,
    // `fail()` and collapsed conjunctions compile to, recognisable when an operator is built) in
    // one or two leaf positions of every 2- and 3-leaf shape
    for n in 2..=3usize {
        for sh in shapes(n, &ops, 0) {
            for mask in 1u32..(1 << n) {
                let k = mask.count_ones() as usize;
                if k > 2 {
                    continue;
                }
                for sf in product(&[Tr::Fail, Tr::Succeed], k) {
                    let mut it = sf.iter();
                    let mut t = sh.clone();
                    for pos in 0..n {
                        if mask & (1 << pos) != 0 {
                            t = replace_leaf(&t, pos as u16, it.next().unwrap());
                        }
                    }
                    let live: Vec<usize> = (0..n).filter(|p| mask & (1 << p) == 0).collect();
                    for a in product(&reduced, live.len()) {
                        // replaced positions keep a placeholder leaf that the tree never mentions
                        let mut leaves = vec![reduced[0].clone(); n];
                        for (j, p) in live.iter().enumerate() {
                            leaves[*p] = a[j].clone();
                        }
                        out.push(Case { tree: t.clone(), leaves });
                    }
                }
            }
        }
    }
    out
}

fn replace_leaf(t: &Tr, pos: u16, with: &Tr) -> Tr {
    let r = |x: &Tr| replace_leaf(x, pos, with);
    match t {
        Tr::Leaf(i) if *i == pos => with.clone(),
        Tr::Leaf(_) | Tr::Succeed | Tr::Fail => t.clone(),
        Tr::Conj(v) => Tr::Conj(v.iter().map(r).collect()),
        Tr::Conde(v) => Tr::Conde(v.iter().map(r).collect()),
        Tr::Disj(v) => Tr::Disj(v.iter().map(r).collect()),
        Tr::Fresh(x) => Tr::Fresh(Box::new(r(x))),
        Tr::Closure(x) => Tr::Closure(Box::new(r(x))),
        Tr::Dfs(x) => Tr::Dfs(Box::new(r(x))),
        Tr::Onceo(x) => Tr::Onceo(Box::new(r(x))),
        Tr::Anyo(x) => Tr::Anyo(Box::new(r(x))),
        Tr::Conda(c) => Tr::Conda(c.iter().map(|(h, b)| (r(h), r(b))).collect()),
        Tr::Condu(c) => Tr::Condu(c.iter().map(|(h, b)| (r(h), r(b))).collect()),
    }
}

struct CaseOut {
    viols: Vec<Violation>,
    hist: Vec<(&'static str, u64)>,
    steps: u64,
    states: u64,
    transitions: u64,
}

// ---------------------------------------------------------------------------------------------
// C05

fn check_c05(case: &Case, index: usize) -> CaseOut {
    crate::ev::progress("c05-e4", index, &Value::Null);
    let mut o = CaseOut { viols: vec![], hist: vec![], steps: 0, states: 0, transitions: 0 };
    let mut re = RefEval::new(case);
    let expected = re.answers(&case.tree, &vec![]);
    assert!(re.complete);
    // three placements: whole tree DFS-typed at top level; dfs{} wrapper in a BFS parent;
    // dfs{} nested as second conjunct of a BFS conjunction with a one-answer leaf (same order)
    for placement in 0..3 {
        for alt in [false, true] {
            let (c2, top_dfs, exp2): (Case, bool, Vec<Trace>) = match placement {
                0 => (case.clone(), true, expected.clone()),
                1 => (Case { tree: Tr::Dfs(Box::new(case.tree.clone())), leaves: case.leaves.clone() }, false, expected.clone()),
                _ => {
                    let extra = case.leaves.len() as u16;
                    let mut leaves = case.leaves.clone();
                    leaves.push((Script::parse("A"), Enc::Pause));
                    let tree = Tr::Conj(vec![Tr::Leaf(extra), Tr::Dfs(Box::new(case.tree.clone()))]);
                    let exp: Vec<Trace> = expected
                        .iter()
                        .map(|t| {
                            let mut v = vec![(extra, 0u16)];
                            v.extend(t.iter().cloned());
                            v
                        })
                        .collect();
                    (Case { tree, leaves }, false, exp)
                }
            };
            let out = run_case(&c2, top_dfs, alt, 10_000, 200_000);
            o.steps += out.steps;
            o.transitions += out.steps;
            match &out.stop {
                Stop::Panic(m) => o.viols.push(mk("panic", "c05-e4", index, &c2, m.clone(), panic_site(m))),
                Stop::Exhausted => {
                    if out.answers != exp2 {
                        let mut a = out.answers.clone();
                        let mut b = exp2.clone();
                        a.sort();
                        b.sort();
                        let kind = if a == b { "order" } else { "answers" };
                        o.viols.push(mk(kind, "c05-e4", index, &c2, format!("placement {} alt {}: got {} expected (Prolog order) {}", placement, alt, show(&out.answers), show(&exp2)), String::new()));
                    } else if exp2.len() >= 2 {
                        o.hist.push(("dfs-ordered-2plus-answers", 1));
                    }
                    if !out.fused_ok {
                        o.viols.push(mk("not-fused", "c05-e4", index, &c2, "Some after None".into(), String::new()));
                    }
                }
                other => o.viols.push(mk("no-termination", "c05-e4", index, &c2, format!("{:?} after {} steps", other, out.steps), String::new())),
            }
        }
    }
    o
}

// --- C05 through the public iterator: term programs wrapped in dfs { }

fn c05_term_programs(quick: bool) -> Vec<crate::ast::Program> {
    use crate::ast::*;
    let q = T::V(0);
    let r = T::V(1);
    let vals: Vec<T> = vec![T::I(1), T::list(vec![T::I(1), T::I(2), T::I(3)]), T::I(2), T::list(vec![T::I(4)]), T::Cmp(Tag::Pair, vec![T::I(1), T::list(vec![T::I(2)])]), T::Nil];
    let mut out = vec![];
    let n = vals.len();
    // disjunctions of bindings to terms of different shapes, all orders of pairs and some triples
    for i in 0..n {
        for j in 0..n {
            if i == j {
                continue;
            }
            out.push(Program { nq: 2, body: vec![G::Dfs(vec![G::Conde(vec![vec![G::Eq(q.clone(), vals[i].clone())], vec![G::Eq(q.clone(), vals[j].clone())]])])] });
            out.push(Program { nq: 2, body: vec![G::Dfs(vec![G::Disj(vec![G::Eq(q.clone(), vals[i].clone()), G::Eq(q.clone(), vals[j].clone())])])] });
            let k = (i + j) % n;
            if !quick || (i + j) % 2 == 0 {
                out.push(Program { nq: 2, body: vec![G::Dfs(vec![G::Conde(vec![vec![G::Eq(q.clone(), vals[i].clone())], vec![G::Eq(q.clone(), vals[j].clone())], vec![G::Eq(q.clone(), vals[k].clone())]]), G::Conde(vec![vec![G::Eq(r.clone(), vals[j].clone())], vec![G::Eq(r.clone(), vals[i].clone())]])])] });
                out.push(Program { nq: 2, body: vec![G::Eq(r.clone(), T::I(0)), G::Dfs(vec![G::Conde(vec![vec![G::Conde(vec![vec![G::Eq(q.clone(), vals[i].clone())], vec![G::Eq(q.clone(), vals[k].clone())]])], vec![G::Eq(q.clone(), vals[j].clone())]])])] });
            }
        }
    }
    // recursion through closures: member / append over lists with elements of different shapes
    let lists: Vec<T> = vec![
        T::list(vec![T::I(1), T::I(2), T::I(3)]),
        T::list(vec![T::list(vec![T::I(1), T::I(2)]), T::I(7), T::list(vec![T::I(3)])]),
        T::list(vec![T::I(7), T::list(vec![T::I(1), T::I(2), T::I(3)]), T::I(8)]),
    ];
    for l in &lists {
        out.push(Program { nq: 2, body: vec![G::Dfs(vec![G::Rel(Rel::Member, vec![q.clone(), l.clone()])])] });
        out.push(Program { nq: 2, body: vec![G::Dfs(vec![G::Rel(Rel::Append, vec![q.clone(), r.clone(), l.clone()])])] });
        out.push(Program { nq: 2, body: vec![G::Dfs(vec![G::Rel(Rel::Member, vec![q.clone(), l.clone()]), G::Rel(Rel::Member, vec![r.clone(), l.clone()])])] });
    }
    out
}

fn check_c05_terms(p: &crate::ast::Program, index: usize) -> CaseOut {
    use crate::conv::{Builder, Dec};
    use crate::run::{run_query, End, DE, DU};
    crate::ev::progress("c05-e3", index, &Value::Null);
    let mut o = CaseOut { viols: vec![], hist: vec![], steps: 0, states: 0, transitions: 0 };
    let sig = p.to_string();
    let mkv = |kind: &str, detail: String, site: String| Violation { kind: kind.into(), sig: sig.clone(), site, detail, family: "c05-e3".into(), index, schedule: vec![], data: Value::Null };
    let reference: Vec<String> = match crate::refeval::reference_answers(p) {
        Some(r) => r.iter().map(|a| format!("{:?}", crate::refm::canon_tuple(&a.tuple).iter().map(|t| t.to_string()).collect::<Vec<_>>())).collect(),
        None => return o,
    };
    let nvars = crate::run::nvars_of(p.nq, &p.body);
    let out = run_query(nvars, p, 200, 400_000);
    o.steps += out.steps;
    let got: Vec<String> = out.answers.iter().map(|a| format!("{:?}", a.terms.iter().map(|t| t.to_string()).collect::<Vec<_>>())).collect();
    match &out.end {
        End::Panic(m) => {
            o.viols.push(mkv("panic", m.clone(), panic_site(m)));
            return o;
        }
        End::Exhausted => {}
        other => {
            o.viols.push(mkv("no-termination", format!("{:?}", other), String::new()));
            return o;
        }
    }
    if got == reference {
        if reference.len() >= 2 {
            o.hist.push(("query-level-dfs-ordered-2plus-answers", 1));
        }
        return o;
    }
    // which order does the search itself (before reification) produce?
    let state_level: Result<Vec<String>, End> = crate::run::guarded(|| {
        let b: Builder<DU, DE> = Builder::new(nvars);
        let goal = b.bfs(&crate::ast::G::Conj(p.body.clone()));
        let mut solver: proto_vulcan::solver::Solver<DU, DE> = proto_vulcan::solver::Solver::new((), false);
        let mut stream = solver.start(&goal, proto_vulcan::state::State::new(proto_vulcan::user::DefaultUser::new()));
        let mut v = vec![];
        while let Some(st) = solver.next(&mut stream) {
            let mut dec: Dec<DU, DE> = Dec::new(None);
            let terms: Vec<String> = (0..p.nq).map(|i| dec.dec(&st.smap_ref().walk_star(&b.env.var(i))).to_string()).collect();
            v.push(format!("{:?}", terms));
            if v.len() > 300 {
                break;
            }
        }
        v
    });
    let mut a = got.clone();
    let mut b = reference.clone();
    a.sort();
    b.sort();
    let kind = if a != b {
        "answers"
    } else if state_level.as_ref().ok() == Some(&reference) {
        // the search yields Prolog order; the order is lost when the answers are reified
        "dfs-order-lost-in-reification"
    } else {
        "order"
    };
    o.viols.push(mkv(kind, format!("ResultIterator yields {:?}; Prolog order is {:?}; the search before reification yields {:?}", got, reference, state_level.unwrap_or_default()), String::new()));
    o
}

pub fn run_c05(ctx: &mut Ctx) {
    let quick = ctx.quick();
    let progs = c05_term_programs(quick);
    {
        let sel: Vec<usize> = match &ctx.replay {
            Some(r) if r.family == "c05-e3" => vec![r.index],
            Some(_) => vec![],
            None => (0..progs.len()).collect(),
        };
        let res = par_map(&sel, |_, i| check_c05_terms(&progs[*i], *i));
        let mut nt = 0u64;
        for r in res {
            for (k, n) in &r.hist {
                ctx.hist(k, *n);
                nt += 1;
            }
            for v in r.viols {
                ctx.violation(v);
            }
        }
        ctx.add("evaluations", sel.len() as u64);
        ctx.add("traces_validated_against_impl", sel.len() as u64);
        ctx.add("distinct_nontrivial", nt);
        ctx.hist("c05-e3:programs", sel.len() as u64);
        if let Some(p) = progs.get(progs.len() / 2) {
            ctx.sample(json!({"family": "c05-e3", "program": p.to_string()}));
        }
    }
    let cases = finite_cases(quick, if quick { 3 } else { 4 });
    ctx.set("rule", json!("E4: every goal-tree shape up to the leaf bound over DFSConj / cond (Conde<DFSGoal>) / DFSDisj / fresh / closure, with every leaf a scripted goal (answer / lazy step scripts, three stream encodings), run DFS-typed at top level, inside dfs{} under a BFS parent and as second conjunct of a BFS conjunction; the answer SEQUENCE must equal the reference depth-first interpreter's, position by position. E3 through the public iterator: dfs{} programs over cond / DFSDisj of bindings to terms of different shapes, nested cond, conjunctions of cond, and member / append (recursion through closures): the ResultIterator sequence must equal the reference interpreter's sequence. distinct_nontrivial = cases with >= 2 answers."));
    run_family(ctx, "c05-e4", &cases, &|c, i| check_c05(c, i));
    ctx.require_nonzero("dfs-ordered-2plus-answers");
}

fn run_family(ctx: &mut Ctx, family: &str, cases: &[Case], f: &(dyn Fn(&Case, usize) -> CaseOut + Sync)) {
    let sel: Vec<usize> = match &ctx.replay {
        Some(r) if r.family == family => vec![r.index],
        Some(_) => vec![],
        None => (0..cases.len()).collect(),
    };
    let res = par_map(&sel, |_, i| f(&cases[*i], *i));
    let mut steps = 0u64;
    let mut states = 0u64;
    let mut transitions = 0u64;
    let mut nontrivial = 0u64;
    for r in res {
        steps += r.steps;
        states += r.states;
        transitions += r.transitions;
        for (k, n) in &r.hist {
            ctx.hist(k, *n);
        }
        if !r.hist.is_empty() {
            nontrivial += 1;
        }
        for v in r.viols {
            ctx.violation(v);
        }
    }
    ctx.add("evaluations", sel.len() as u64);
    ctx.add("traces_validated_against_impl", sel.len() as u64);
    ctx.add("transitions", transitions.max(steps));
    ctx.add("states", states.max(steps));
    ctx.add("engine_steps", steps);
    ctx.add("distinct_nontrivial", nontrivial);
    ctx.hist(&format!("{}:cases", family), sel.len() as u64);
    for i in [0usize, cases.len() / 3, cases.len() / 2, cases.len().saturating_sub(1)] {
        if let Some(c) = cases.get(i) {
            ctx.sample(json!({"family": family, "index": i, "case": c.to_string()}));
        }
    }
}

// ---------------------------------------------------------------------------------------------
// C06

fn infinite_cases(quick: bool) -> Vec<Case> {
    let ops = ["conj", "conde", "disj"];
    let scripts: Vec<Script> = ["A", "AA", "", "F", "AF", "DF", "N", "AN"].iter().map(|s| Script::parse(s)).collect();
    let choices = leaf_choices(&scripts, &[Enc::Pause, Enc::Iter]);
    let mut out = vec![];
    for n in 1..=(if quick { 2 } else { 3 }) {
        let assigns = product(&choices, n);
        for sh in shapes(n, &ops, 0) {
            for a in &assigns {
                if a.iter().all(|(s, _)| s.finite()) {
                    continue;
                }
                out.push(Case { tree: sh.clone(), leaves: a.clone() });
                if n <= 2 {
                    out.push(Case { tree: Tr::Anyo(Box::new(sh.clone())), leaves: a.clone() });
                }
            }
        }
    }
    // anyo prefixes over finite trees
    for n in 1..=2 {
        let fin = leaf_choices(&["A", "AA", "DA", ""].iter().map(|s| Script::parse(s)).collect::<Vec<_>>(), &[Enc::Pause, Enc::Delay]);
        for sh in shapes(n, &ops, 0) {
            for a in product(&fin, n) {
                out.push(Case { tree: Tr::Anyo(Box::new(sh.clone())), leaves: a.clone() });
                out.push(Case { tree: Tr::Conj(vec![Tr::Anyo(Box::new(sh.clone())), Tr::Leaf(n as u16)]), leaves: {
                    let mut l = a.clone();
                    l.push((Script::parse("A"), Enc::Pause));
                    l
                } });
            }
        }
    }
    out
}

fn check_c06_finite(case: &Case, index: usize, with_invariant: bool) -> CaseOut {
    crate::ev::progress("c06-finite", index, &Value::Null);
    let mut o = CaseOut { viols: vec![], hist: vec![], steps: 0, states: 0, transitions: 0 };
    let mut re = RefEval::new(case);
    let mut expected = re.answers(&case.tree, &vec![]);
    expected.sort();
    for alt in [false, true] {
        let out = run_case(case, false, alt, 10_000, 500_000);
        o.steps += out.steps;
        match &out.stop {
            Stop::Panic(m) => o.viols.push(mk("panic", "c06-finite", index, case, m.clone(), panic_site(m))),
            Stop::Exhausted => {
                let mut got = out.answers.clone();
                got.sort();
                if got != expected {
                    let kind = if got.len() < expected.len() { "lost-answer" } else if got.len() > expected.len() { "invented-answer" } else { "wrong-answer" };
                    o.viols.push(mk(kind, "c06-finite", index, case, format!("alt {}: interleaving search gives {} but the program's answers are {}", alt, show(&out.answers), show(&expected)), String::new()));
                } else if expected.len() >= 2 {
                    o.hist.push(("bfs-multiset-2plus-answers", 1));
                    // is the BFS order different from DFS order? (non-vacuity of "only the order differs")
                    let mut re2 = RefEval::new(case);
                    if re2.answers(&case.tree, &vec![]) != out.answers {
                        o.hist.push(("bfs-order-differs-from-dfs", 1));
                    }
                }
                if !out.fused_ok {
                    o.viols.push(mk("not-fused", "c06-finite", index, case, "Some after None".into(), String::new()));
                }
            }
            other => o.viols.push(mk("no-termination", "c06-finite", index, case, format!("{:?} after {} steps", other, out.steps), String::new())),
        }
    }
    // the same tree run depth-first gives the same multiset
    let dfs = run_case(case, true, false, 10_000, 500_000);
    o.steps += dfs.steps;
    if dfs.stop == Stop::Exhausted {
        let mut got = dfs.answers.clone();
        got.sort();
        if got != expected {
            o.viols.push(mk("dfs-differs", "c06-finite", index, case, format!("depth-first run gives {} vs {}", show(&dfs.answers), show(&expected)), String::new()));
        }
    }
    if with_invariant {
        let (st, tr, err) = step_invariant(case, false, &expected, 5_000);
        o.states += st;
        o.transitions += tr;
        if let Some(e) = err {
            o.viols.push(mk("step-invariant", "c06-finite", index, case, e, String::new()));
        }
    }
    o
}

fn check_c06_infinite(case: &Case, index: usize) -> CaseOut {
    crate::ev::progress("c06-infinite", index, &Value::Null);
    let mut o = CaseOut { viols: vec![], hist: vec![], steps: 0, states: 0, transitions: 0 };
    // odd cases use the alternative build (other conjunction constructors; `loop { a, b }` as
    // two clauses instead of one bracketed clause)
    let out = run_case(case, false, index % 2 == 1, 12, 20_000);
    o.steps += out.steps;
    if let Stop::Panic(m) = &out.stop {
        o.viols.push(mk("panic", "c06-infinite", index, case, m.clone(), panic_site(m)));
        return o;
    }
    let is_anyo = matches!(case.tree, Tr::Anyo(_)) || matches!(&case.tree, Tr::Conj(v) if matches!(v[0], Tr::Anyo(_)));
    let mut seen: Vec<&Trace> = vec![];
    for a in &out.answers {
        if !is_answer(case, a) {
            o.viols.push(mk("invented-answer", "c06-infinite", index, case, format!("answer {} is not an answer of the program (prefix {})", show(&[a.clone()]), show(&out.answers)), String::new()));
        }
        if !is_anyo && seen.contains(&a) {
            o.viols.push(mk("duplicate-answer", "c06-infinite", index, case, format!("answer {} produced twice in {}", show(&[a.clone()]), show(&out.answers)), String::new()));
        }
        seen.push(a);
    }
    if !out.answers.is_empty() {
        o.hist.push(("infinite-prefix-with-answers", 1));
    }
    if !may_diverge(case, &case.tree) && out.stop != Stop::Exhausted {
        o.viols.push(mk("no-termination", "c06-infinite", index, case, format!("{:?}", out.stop), String::new()));
    }
    o
}

pub fn run_c06(ctx: &mut Ctx) {
    let quick = ctx.quick();
    ctx.set("rule", json!("E4: every goal-tree shape up to the leaf bound over Conj / Conde / Disj / fresh / closure (BFS typing) with scripted leaves: for finite scripts the multiset of answer traces must equal the reference semantics and the depth-first run of the same tree, and at EVERY engine step `emitted + drain(clone(stream))` must equal the final multiset (states/transitions counted there); for infinite producers/divergers (and loop{} prefixes) every answer of a bounded prefix must be derivable and never repeated. distinct_nontrivial = cases with >= 2 answers."));
    let fin = finite_cases(quick, if quick { 3 } else { 4 });
    let inv_limit = if quick { 2 } else { 3 };
    run_family(ctx, "c06-finite", &fin, &|c, i| check_c06_finite(c, i, c.leaves.len() <= inv_limit));
    let inf = infinite_cases(quick);
    run_family(ctx, "c06-infinite", &inf, &|c, i| check_c06_infinite(c, i));
    ctx.require_nonzero("bfs-multiset-2plus-answers");
    ctx.require_nonzero("bfs-order-differs-from-dfs");
    ctx.require_nonzero("infinite-prefix-with-answers");
    ctx.assume("reference: traces of a conjunction are concatenations, of a disjunction unions");
}

// ---------------------------------------------------------------------------------------------
// C07 fairness

/// Branch kinds for the fairness family.
fn c07_branches() -> Vec<(Script, Enc)> {
    let mut v = vec![];
    for s in ["A", "DDA", "AA", "F", "DF", "N", "DN", ""] {
        v.push((Script::parse(s), Enc::Pause));
    }
    v.push((Script::parse("F"), Enc::Iter));
    v.push((Script::parse("DA"), Enc::Delay));
    v
}

fn c07_cases(quick: bool) -> Vec<Case> {
    let br = c07_branches();
    let mut out = vec![];
    for k in 2..=(if quick { 3 } else { 4 }) {
        for a in product(&br, k) {
            if !a.iter().any(|(s, _)| s.has_answer()) {
                continue;
            }
            // at least one infinite branch (otherwise C06 covers it)
            if a.iter().all(|(s, _)| s.finite()) {
                continue;
            }
            let leaves: Vec<Tr> = (0..k as u16).map(Tr::Leaf).collect();
            for form in 0..3 {
                let d = match form {
                    0 => Tr::Conde(leaves.clone()),
                    1 => Tr::Disj(leaves.clone()),
                    _ => {
                        // nested: first branch alone vs a conde of the others
                        if k < 3 {
                            continue;
                        }
                        Tr::Conde(vec![leaves[0].clone(), Tr::Conde(leaves[1..].to_vec())])
                    }
                };
                // positions: top, under fresh/closure, as first conjunct with a finite second
                // conjunct, as second conjunct after an infinite producer, inside loop{}
                out.push(Case { tree: d.clone(), leaves: a.clone() });
                out.push(Case { tree: Tr::Fresh(Box::new(Tr::Closure(Box::new(d.clone())))), leaves: a.clone() });
                let mut l2 = a.clone();
                l2.push((Script::parse("A"), Enc::Pause));
                out.push(Case { tree: Tr::Conj(vec![d.clone(), Tr::Leaf(k as u16)]), leaves: l2.clone() });
                let mut l3 = a.clone();
                l3.push((Script::parse("F"), Enc::Pause));
                out.push(Case { tree: Tr::Conj(vec![Tr::Leaf(k as u16), d.clone()]), leaves: l3 });
                if form == 0 {
                    out.push(Case { tree: Tr::Anyo(Box::new(d.clone())), leaves: a.clone() });
                    // each branch wrapped in dfs{}, and a depth-first conjunction whose first goal
                    // is the branch (a diverging first goal must not stall the other branches)
                    let wrapped: Vec<Tr> = leaves.iter().map(|l| Tr::Dfs(Box::new(l.clone()))).collect();
                    out.push(Case { tree: Tr::Conde(wrapped), leaves: a.clone() });
                    let mut l4 = a.clone();
                    l4.push((Script::parse("A"), Enc::Pause));
                    let conj: Vec<Tr> = leaves.iter().map(|l| Tr::Dfs(Box::new(Tr::Conj(vec![l.clone(), Tr::Leaf(k as u16)])))).collect();
                    out.push(Case { tree: Tr::Conde(conj.clone()), leaves: l4.clone() });
                    out.push(Case { tree: Tr::Disj(conj), leaves: l4 });
                    // a branch that produces nothing wrapped in loop{}: `loop { diverger }` and
                    // `loop { false }` among productive siblings (the loop must stay lazy)
                    for (bi, (sc, _)) in a.iter().enumerate() {
                        if !sc.has_answer() {
                            let mut wrapped = leaves.clone();
                            wrapped[bi] = Tr::Anyo(Box::new(leaves[bi].clone()));
                            out.push(Case { tree: Tr::Conde(wrapped.clone()), leaves: a.clone() });
                            out.push(Case { tree: Tr::Disj(wrapped), leaves: a.clone() });
                            // the same branch as the head of a committed choice (conda / condu
                            // clause, onceo body): a head that never answers must not block
                            for cc in 0..3 {
                                let mut w2 = leaves.clone();
                                w2[bi] = match cc {
                                    0 => Tr::Conda(vec![(leaves[bi].clone(), Tr::Succeed), (Tr::Succeed, Tr::Succeed)]),
                                    1 => Tr::Condu(vec![(leaves[bi].clone(), Tr::Succeed)]),
                                    _ => Tr::Onceo(Box::new(leaves[bi].clone())),
                                };
                                // only heads that diverge: a finite failing head would let the
                                // second conda clause answer, which is a different program
                                if !sc.finite() {
                                    out.push(Case { tree: Tr::Conde(w2), leaves: a.clone() });
                                }
                            }
                        }
                    }
                    // a statically failing branch (`false`) in every position among the others:
                    // the remaining branches keep their turns
                    for pos in 0..=k {
                        let mut with_fail = leaves.clone();
                        with_fail.insert(pos, Tr::Fail);
                        out.push(Case { tree: Tr::Conde(with_fail.clone()), leaves: a.clone() });
                        if pos == k {
                            out.push(Case { tree: Tr::Disj(with_fail.clone()), leaves: a.clone() });
                            out.push(Case { tree: Tr::Anyo(Box::new(Tr::Conde(with_fail))), leaves: a.clone() });
                        }
                    }
                }
            }
        }
    }
    out
}

/// Steps a single branch needs to give its j-th answer when run alone.
fn alone_steps(s: &Script, enc: Enc, j: usize) -> Option<u64> {
    let case = Case { tree: Tr::Leaf(0), leaves: vec![(s.clone(), enc)] };
    let out = run_case(&case, false, false, j + 1, 10_000);
    out.steps_at.get(j).copied()
}

fn check_c07(case: &Case, index: usize) -> CaseOut {
    crate::ev::progress("c07-e4", index, &Value::Null);
    let mut o = CaseOut { viols: vec![], hist: vec![], steps: 0, states: 0, transitions: 0 };
    // which leaves are disjunction branches: those reachable without passing a conjunction's
    // left neighbour; here: the first k leaves by construction
    let (k, wrapped_conj_first, prefixed, looped) = match &case.tree {
        Tr::Conj(v) if matches!(v[0], Tr::Leaf(_)) => (case.leaves.len() - 1, false, true, false),
        Tr::Conj(_) => (case.leaves.len() - 1, true, false, false),
        Tr::Anyo(_) => (case.leaves.len(), false, false, true),
        _ => (case.leaves.len(), false, false, false),
    };
    let m = 3usize;
    let depth = if matches!(&case.tree, Tr::Conde(v) if v.iter().any(|x| matches!(x, Tr::Conde(_)))) { 2 } else { 1 };
    // wanted: for each branch b and j < m with a j-th answer: (b, j) must show up
    let mut wanted: Vec<(u16, u16, u64)> = vec![];
    for b in 0..k {
        let (s, e) = &case.leaves[b];
        for j in 0..m {
            if let Some(n) = s.answers() {
                if j >= n {
                    break;
                }
            }
            if let Some(st) = alone_steps(s, *e, j) {
                wanted.push((b as u16, j as u16, st));
            }
        }
    }
    if wanted.is_empty() {
        return o;
    }
    let worst = wanted.iter().map(|w| w.2).max().unwrap();
    // generous bound: a binary mplus chain gives branch i a 2^-i share
    let bound = 64 * (1u64 << (k * depth)) * (worst + 1) * if prefixed || looped { 8 } else { 1 };
    let out = run_case(case, false, false, 400, bound);
    o.steps += out.steps;
    if let Stop::Panic(msg) = &out.stop {
        o.viols.push(mk("panic", "c07-e4", index, case, msg.clone(), panic_site(msg)));
        return o;
    }
    for (b, j, alone) in &wanted {
        // the answer of branch b with ordinal j: trace contains (b, j); under a prefix producer
        // the prefix entry comes first, with a trailing conjunct the entry (k, 0) comes after
        let found = out.answers.iter().any(|t| t.contains(&(*b, *j)));
        if !found {
            o.viols.push(mk(
                "starved",
                "c07-e4",
                index,
                case,
                format!(
                    "answer #{} of branch L{} (needs {} steps alone) did not appear within {} steps / {} answers (run ended with {:?}); first answers: {}",
                    j,
                    b,
                    alone,
                    bound,
                    out.answers.len(),
                    out.stop,
                    show(&out.answers.iter().take(8).cloned().collect::<Vec<_>>())
                ),
                String::new(),
            ));
        }
    }
    let has_div = case.leaves[..k].iter().any(|(s, _)| s.tail == Tail::Diverge);
    let has_prod = case.leaves[..k].iter().any(|(s, _)| s.tail == Tail::Forever);
    if has_div {
        o.hist.push(("answers-despite-silent-diverger", 1));
    }
    if has_prod {
        o.hist.push(("answers-despite-infinite-producer", 1));
    }
    let _ = wrapped_conj_first;
    o
}

pub fn run_c07(ctx: &mut Ctx) {
    let quick = ctx.quick();
    ctx.set("rule", json!("E4, bounded liveness: disjunctions (conde, binary Disj, nested conde, loop{conde}) of 2-3 branches drawn from finite goals, infinite producers and silent divergers, in five positions; for every branch b and j < 3, if b alone yields its j-th answer after s engine steps, the whole program must yield that answer within 64 * 2^(k*depth) * (s+1) steps (hook H2 makes exceeding the bound a deterministic outcome). distinct_nontrivial = cases containing a diverging or infinitely producing branch next to an answering one. Long horizon (family c07-long): the library's own generators always() / loop{} / never() in disjunctions through the public query iterator on a thread with the default 2 MiB stack, 100 000 (quick) / 1 000 000 (thorough) answers each: every branch's value must appear with its fair share and the search must not stop yielding (budget, panic, process abort)."));
    let cases = c07_cases(quick);
    run_family(ctx, "c07-e4", &cases, &|c, i| check_c07(c, i));
    crate::c07_long::run(ctx);
    ctx.require_nonzero("answers-despite-silent-diverger");
    ctx.require_nonzero("answers-despite-infinite-producer");
    ctx.assume("fairness is checked as bounded liveness: the bound is generous for any fair binary interleaving and finite for none that starves a branch");
}

// ---------------------------------------------------------------------------------------------
// C08 committed choice

fn c08_cases(quick: bool) -> Vec<Case> {
    // heads: 0 / 1 / many answers, lazily produced, infinite producer, silent diverger,
    // diverger after an answer; rests: 0 / 1 / many answers
    let heads: Vec<(Script, Enc)> = {
        let mut v = vec![];
        for s in ["", "A", "AA", "DA", "DDA", "DAA", "AD", "F", "DF", "N", "AN", "D"] {
            v.push((Script::parse(s), Enc::Pause));
        }
        v.push((Script::parse("AA"), Enc::Delay));
        v.push((Script::parse("DA"), Enc::Delay));
        v.push((Script::parse("AA"), Enc::Iter));
        v.push((Script::parse("F"), Enc::Iter));
        v
    };
    let rests: Vec<(Script, Enc)> = ["", "A", "AA", "DA"].iter().map(|s| (Script::parse(s), Enc::Pause)).collect();
    let mut out = vec![];
    let nclauses = if quick { 2 } else { 3 };
    for n in 1..=nclauses {
        let hsel: Vec<(Script, Enc)> = if n == 3 { heads.iter().take(9).cloned().chain(heads.iter().skip(9).take(3).cloned()).collect() } else { heads.clone() };
        let rsel: Vec<(Script, Enc)> = if n == 3 { rests.iter().take(3).cloned().collect() } else { rests.clone() };
        for hs in product(&hsel, n) {
            for rs in product(&rsel, n) {
                let mut leaves = vec![];
                let mut clauses = vec![];
                for i in 0..n {
                    leaves.push(hs[i].clone());
                    leaves.push(rs[i].clone());
                    clauses.push((Tr::Leaf(2 * i as u16), Tr::Leaf(2 * i as u16 + 1)));
                }
                out.push(Case { tree: Tr::Conda(clauses.clone()), leaves: leaves.clone() });
                out.push(Case { tree: Tr::Condu(clauses.clone()), leaves: leaves.clone() });
            }
        }
    }
    // clauses with TWO goals after the head, `[h, r1, r2]`: they run in the order written (the
    // trace of an answer records it) after the head has committed
    {
        let hsel: Vec<(Script, Enc)> = ["A", "AA", "DA", ""].iter().map(|s| (Script::parse(s), Enc::Pause)).collect();
        let rsel: Vec<(Script, Enc)> = ["A", "AA", "DA"].iter().map(|s| (Script::parse(s), Enc::Pause)).collect();
        for h in &hsel {
            for r1 in &rsel {
                for r2 in &rsel {
                    let leaves = vec![h.clone(), r1.clone(), r2.clone(), (Script::parse("A"), Enc::Pause)];
                    let one = vec![(Tr::Leaf(0), Tr::Conj(vec![Tr::Leaf(1), Tr::Leaf(2)]))];
                    let two = vec![(Tr::Leaf(0), Tr::Conj(vec![Tr::Leaf(1), Tr::Leaf(2)])), (Tr::Leaf(3), Tr::Conj(vec![Tr::Leaf(2), Tr::Leaf(1)]))];
                    for cl in [one, two] {
                        out.push(Case { tree: Tr::Conda(cl.clone()), leaves: leaves.clone() });
                        out.push(Case { tree: Tr::Condu(cl.clone()), leaves: leaves.clone() });
                        // twice, so that both builds (direct and through matcha / matchu) see it
                        out.push(Case { tree: Tr::Condu(cl.clone()), leaves: leaves.clone() });
                    }
                }
            }
        }
    }
    // statically true / false goals as head or rest (the constructors fold such goals when the
    // clause list is built): clauses [L0, false], [true, L1], [false, L1], [L0, true]
    {
        let some: Vec<(Script, Enc)> = ["A", "AA", "", "DA"].iter().map(|s| (Script::parse(s), Enc::Pause)).collect();
        let statics = [Tr::Succeed, Tr::Fail];
        for a in &some {
            for b in &some {
                let leaves = vec![a.clone(), b.clone()];
                for st in &statics {
                    for form in 0..4 {
                        let clauses: Vec<(Tr, Tr)> = match form {
                            0 => vec![(Tr::Leaf(0), st.clone()), (Tr::Leaf(1), Tr::Succeed)],
                            1 => vec![(st.clone(), Tr::Leaf(0)), (Tr::Leaf(1), Tr::Succeed)],
                            2 => vec![(Tr::Leaf(0), Tr::Conj(vec![Tr::Leaf(1), st.clone()])), (Tr::Succeed, Tr::Succeed)],
                            _ => vec![(Tr::Conj(vec![st.clone(), Tr::Leaf(0)]), Tr::Leaf(1)), (Tr::Leaf(1), st.clone())],
                        };
                        out.push(Case { tree: Tr::Conda(clauses.clone()), leaves: leaves.clone() });
                        out.push(Case { tree: Tr::Condu(clauses.clone()), leaves: leaves.clone() });
                    }
                    out.push(Case { tree: Tr::Onceo(Box::new(Tr::Conj(vec![Tr::Leaf(0), st.clone()]))), leaves: leaves.clone() });
                    out.push(Case { tree: Tr::Onceo(Box::new(Tr::Conde(vec![st.clone(), Tr::Leaf(0)]))), leaves: leaves.clone() });
                }
            }
        }
    }
    // onceo over leaves and over small trees; heads that are disjunctions (differential oracle)
    for h in &heads {
        out.push(Case { tree: Tr::Onceo(Box::new(Tr::Leaf(0))), leaves: vec![h.clone()] });
        for h2 in heads.iter().take(8) {
            for form in 0..3 {
                let head = match form {
                    0 => Tr::Conde(vec![Tr::Leaf(0), Tr::Leaf(1)]),
                    1 => Tr::Conj(vec![Tr::Leaf(0), Tr::Leaf(1)]),
                    _ => Tr::Disj(vec![Tr::Leaf(0), Tr::Leaf(1)]),
                };
                out.push(Case { tree: Tr::Onceo(Box::new(head.clone())), leaves: vec![h.clone(), h2.clone()] });
                let leaves = vec![h.clone(), h2.clone(), (Script::parse("AA"), Enc::Pause)];
                out.push(Case { tree: Tr::Condu(vec![(head.clone(), Tr::Leaf(2))]), leaves: leaves.clone() });
                out.push(Case { tree: Tr::Conda(vec![(head.clone(), Tr::Leaf(2))]), leaves });
            }
        }
    }
    out
}

/// Engine-order first answer of a head run alone (state-level differential oracle); built
/// with the same constructors (`alt`) as the whole program, since the order in which an
/// interleaving disjunction delivers its answers may depend on how it was constructed.
fn head_first(case: &Case, head: &Tr, alt: bool) -> (Option<Trace>, Stop) {
    let c = Case { tree: head.clone(), leaves: case.leaves.clone() };
    let out = run_case(&c, false, alt, 1, 20_000);
    (out.answers.first().cloned(), out.stop)
}

fn head_all(case: &Case, head: &Tr, alt: bool) -> (Vec<Trace>, Stop) {
    let c = Case { tree: head.clone(), leaves: case.leaves.clone() };
    let out = run_case(&c, false, alt, 50, 20_000);
    (out.answers, out.stop)
}

fn check_c08(case: &Case, index: usize) -> CaseOut {
    crate::ev::progress("c08-e4", index, &Value::Null);
    let mut o = CaseOut { viols: vec![], hist: vec![], steps: 0, states: 0, transitions: 0 };
    // odd cases use the alternative build (`onceo { a, b }` as two clauses instead of one
    // bracketed clause `onceo { [a, b] }`)
    let alt = index % 2 == 1;
    let out = run_case(case, false, alt, 40, 60_000);
    o.steps += out.steps;
    if let Stop::Panic(m) = &out.stop {
        o.viols.push(mk("panic", "c08-e4", index, case, m.clone(), panic_site(m)));
        return o;
    }
    // expected by cases, using the engine's own order of the head's answers
    let rest_answers = |rest: &Tr, from: &Trace| -> Vec<Trace> {
        let mut re = RefEval::new(case);
        re.answers(rest, from)
    };
    enum Exp {
        Finite(Vec<Trace>),
        /// the search must not end; answers produced must come from this list prefix-wise
        DivergesAfter(Vec<Trace>),
        /// infinitely many answers: judge the prefix only
        Prefix(Vec<Trace>),
    }
    let exp: Exp = match &case.tree {
        Tr::Onceo(x) => {
            let (first, stop) = head_first(case, x, alt);
            match first {
                Some(f) => Exp::Finite(vec![f]),
                None => {
                    if stop == Stop::Exhausted {
                        Exp::Finite(vec![])
                    } else {
                        Exp::DivergesAfter(vec![])
                    }
                }
            }
        }
        Tr::Condu(cl) => {
            let mut e = Exp::Finite(vec![]);
            for (h, r) in cl {
                let (first, stop) = head_first(case, h, alt);
                if let Some(f) = first {
                    e = Exp::Finite(rest_answers(r, &f));
                    break;
                }
                if stop != Stop::Exhausted {
                    e = Exp::DivergesAfter(vec![]);
                    break;
                }
            }
            e
        }
        Tr::Conda(cl) => {
            let mut e = Exp::Finite(vec![]);
            for (h, r) in cl {
                let (hs, stop) = head_all(case, h, alt);
                if !hs.is_empty() {
                    let mut all = vec![];
                    for t in &hs {
                        all.extend(rest_answers(r, t));
                    }
                    e = match stop {
                        Stop::Exhausted => Exp::Finite(all),
                        Stop::Limit => Exp::Prefix(all),
                        _ => Exp::DivergesAfter(all),
                    };
                    break;
                }
                if stop != Stop::Exhausted {
                    e = Exp::DivergesAfter(vec![]);
                    break;
                }
            }
            e
        }
        _ => unreachable!(),
    };
    let sorted = |v: &Vec<Trace>| {
        let mut s = v.clone();
        s.sort();
        s
    };
    match exp {
        Exp::Finite(e) => {
            if out.stop != Stop::Exhausted {
                o.viols.push(mk("no-termination", "c08-e4", index, case, format!("expected the finite answer list {} but the run ended with {:?} after {}", show(&e), out.stop, show(&out.answers)), String::new()));
            } else if sorted(&out.answers) != sorted(&e) {
                let kind = if out.answers.len() > e.len() { "extra-answers" } else if out.answers.len() < e.len() { "dropped-answers" } else { "wrong-committed-answer" };
                o.viols.push(mk(kind, "c08-e4", index, case, format!("got {} expected {}", show(&out.answers), show(&e)), String::new()));
            } else {
                o.hist.push(if e.is_empty() { ("committed-none", 1) } else { ("committed-some", 1) });
                if !out.fused_ok {
                    o.viols.push(mk("not-fused", "c08-e4", index, case, "Some after None".into(), String::new()));
                }
            }
        }
        Exp::Prefix(e) => {
            // every produced answer must be among the expected ones (which are a prefix of an
            // infinite list, so only membership of the early ones can be judged), no duplicates
            for (i, a) in out.answers.iter().enumerate() {
                if out.answers[..i].contains(a) {
                    o.viols.push(mk("duplicate-answer", "c08-e4", index, case, format!("{} twice in {}", show(&[a.clone()]), show(&out.answers)), String::new()));
                }
                if !is_answer(case, a) {
                    o.viols.push(mk("extra-answers", "c08-e4", index, case, format!("{} is not an answer of the committed clause", show(&[a.clone()])), String::new()));
                }
            }
            if out.answers.is_empty() && !e.is_empty() {
                o.viols.push(mk("dropped-answers", "c08-e4", index, case, format!("no answers within budget; expected to start with {}", show(&e[..e.len().min(3)])), String::new()));
            }
            o.hist.push(("committed-infinite", 1));
        }
        Exp::DivergesAfter(e) => {
            for a in &out.answers {
                if !e.contains(a) {
                    o.viols.push(mk("extra-answers", "c08-e4", index, case, format!("{} produced although the committed head never finishes; allowed {}", show(&[a.clone()]), show(&e)), String::new()));
                }
            }
            if out.stop == Stop::Exhausted && sorted(&out.answers) != sorted(&e) {
                // ending is allowed only with exactly the answers available
                o.viols.push(mk("dropped-answers", "c08-e4", index, case, format!("ended with {} but {} were available", show(&out.answers), show(&e)), String::new()));
            }
            o.hist.push(("head-diverges", 1));
        }
    }
    o
}

pub fn run_c08(ctx: &mut Ctx) {
    let quick = ctx.quick();
    ctx.set("rule", json!("E4: all conda / condu clause lists of 1..3 clauses whose head and rest are scripted leaves (0/1/many answers, answers after lazy steps, infinite producers, silent divergers, three encodings), onceo over leaves and over two-leaf conde/conj/disj heads, condu/conda with such heads. Oracle: soft-cut / committed-choice semantics by cases, where 'first answer in engine order' of a head is obtained from the engine itself by running the head alone from the same state (state-level differential). distinct_nontrivial = cases that commit to a clause with answers."));
    let cases = c08_cases(quick);
    run_family(ctx, "c08-e4", &cases, &|c, i| check_c08(c, i));
    for k in ["committed-some", "committed-none", "committed-infinite", "head-diverges"] {
        ctx.require_nonzero(k);
    }
}
