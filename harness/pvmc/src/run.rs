//! Running programs against the library: public-iterator level and state level, with a step
//! budget (hook H2) and panic capture.
use crate::ast::*;
use crate::conv::*;
use proto_vulcan::engine::{DefaultEngine, Engine};
use proto_vulcan::query::Query;
use proto_vulcan::user::{DefaultUser, User};
use proto_vulcan::verif;
use std::cell::RefCell;
use std::panic::{catch_unwind, AssertUnwindSafe};

pub type DU = DefaultUser;
pub type DE = DefaultEngine<DefaultUser>;

#[derive(Clone, Debug, PartialEq, Eq)]
pub enum End {
    /// the iterator returned None
    Exhausted,
    /// the requested number of answers was reached
    Limit,
    /// the step budget ran out (hook H2) — a deterministic "diverged within budget"
    Budget,
    /// the library panicked: message and location
    Panic(String),
}

#[derive(Clone, Debug)]
pub struct Outcome {
    pub answers: Vec<Ans>,
    pub end: End,
    pub steps: u64,
}

thread_local! {
    static LAST_PANIC: RefCell<Option<String>> = RefCell::new(None);
    static GUARD_DEPTH: std::cell::Cell<u32> = std::cell::Cell::new(0);
}

/// Installs a process-wide panic hook that records message+location per thread and prints
/// nothing. Called once from main.
pub fn install_quiet_panic_hook() {
    std::panic::set_hook(Box::new(|info| {
        let msg = if let Some(s) = info.payload().downcast_ref::<&str>() {
            s.to_string()
        } else if let Some(s) = info.payload().downcast_ref::<String>() {
            s.clone()
        } else if info.payload().downcast_ref::<verif::BudgetExceeded>().is_some() {
            "BudgetExceeded".to_string()
        } else {
            "<non-string panic payload>".to_string()
        };
        let loc = info
            .location()
            .map(|l| format!("{}:{}", l.file(), l.line()))
            .unwrap_or_default();
        // Keep messages short: library panics may Debug-print whole states.
        let mut m = msg;
        if m.len() > 160 {
            m.truncate(160);
            m.push_str("...");
        }
        if GUARD_DEPTH.with(|g| g.get()) == 0 {
            // a panic outside a guarded library call is a harness bug: make it loud
            eprintln!("harness panic: {} @ {}", m, loc);
        }
        LAST_PANIC.with(|p| *p.borrow_mut() = Some(format!("{} @ {}", m, loc)));
    }));
}

/// Runs `f` catching panics; a `BudgetExceeded` payload becomes `Err(End::Budget)`.
pub fn guarded<R>(f: impl FnOnce() -> R) -> Result<R, End> {
    LAST_PANIC.with(|p| *p.borrow_mut() = None);
    GUARD_DEPTH.with(|g| g.set(g.get() + 1));
    let caught = catch_unwind(AssertUnwindSafe(f));
    GUARD_DEPTH.with(|g| g.set(g.get() - 1));
    match caught {
        Ok(r) => Ok(r),
        Err(payload) => {
            if payload.downcast_ref::<verif::BudgetExceeded>().is_some() {
                Err(End::Budget)
            } else {
                let msg = LAST_PANIC
                    .with(|p| p.borrow_mut().take())
                    .unwrap_or_else(|| "<panic>".into());
                Err(End::Panic(msg))
            }
        }
    }
}

/// Normalises the file path of a panic location so that known-findings matchers are stable.
pub fn panic_site(msg: &str) -> String {
    match msg.rfind(" @ ") {
        Some(i) => {
            let loc = &msg[i + 3..];
            let loc = loc.rsplit("/repo/").next().unwrap_or(loc);
            loc.to_string()
        }
        None => String::new(),
    }
}

/// Runs a program through the public query iterator for at most `max_answers` answers and
/// `budget` engine steps in total.
pub fn run_query_with<U: User, E: Engine<U>>(
    nvars: usize,
    p: &Program,
    user: U,
    ctx: U::UserContext,
    max_answers: usize,
    budget: u64,
    probes: Vec<ProbeFn<U, E>>,
) -> Outcome
where
    U::UserContext: 'static,
{
    verif::reset_steps();
    verif::set_budget(budget);
    let mut answers = vec![];
    let r = guarded(|| {
        let mut b: Builder<U, E> = Builder::new(nvars);
        b.probes = probes;
        let (qvars, goal) = query_goal(&b, p.nq, &p.body);
        let query: Query<Row<U, E>, U, E> = Query::new(qvars, goal);
        let mut iter = query.run_with_user(user, ctx);
        loop {
            if answers.len() >= max_answers {
                return End::Limit;
            }
            match iter.next() {
                Some(row) => answers.push(decode_row(&row)),
                None => {
                    // fused check: three more calls must give None
                    for _ in 0..3 {
                        if iter.next().is_some() {
                            return End::Panic("iterator not fused: Some after None".into());
                        }
                    }
                    return End::Exhausted;
                }
            }
        }
    });
    let steps = verif::steps();
    verif::set_budget(u64::MAX);
    let end = match r {
        Ok(e) => e,
        Err(e) => e,
    };
    Outcome { answers, end, steps }
}

pub fn run_query(nvars: usize, p: &Program, max_answers: usize, budget: u64) -> Outcome {
    run_query_with::<DU, DE>(nvars, p, DefaultUser::new(), (), max_answers, budget, vec![])
}

/// Highest variable index used in a goal list, plus one.
pub fn nvars_of(nq: u32, gs: &[G]) -> usize {
    fn t(tt: &T, m: &mut u32) {
        match tt {
            T::V(i) => *m = (*m).max(*i + 1),
            T::Cons(h, tl) => {
                t(h, m);
                t(tl, m);
            }
            T::Cmp(_, fs) => fs.iter().for_each(|f| t(f, m)),
            _ => {}
        }
    }
    fn g(gl: &G, m: &mut u32) {
        match gl {
            G::Eq(a, b) | G::Neq(a, b) => {
                t(a, m);
                t(b, m);
            }
            G::Conj(gs) | G::Disj(gs) | G::Onceo(gs) | G::Dfs(gs) | G::Anyo(gs) => gs.iter().for_each(|x| g(x, m)),
            G::Fresh(vs, gs) | G::Project(vs, gs) => {
                vs.iter().for_each(|v| *m = (*m).max(*v + 1));
                gs.iter().for_each(|x| g(x, m));
            }
            G::Conde(arms) | G::Conda(arms) | G::Condu(arms) => {
                arms.iter().for_each(|a| a.iter().for_each(|x| g(x, m)))
            }
            G::Closure(b) => g(b, m),
            G::InFd(ts, _) | G::Fd(_, ts) | G::Rel(_, ts) => ts.iter().for_each(|x| t(x, m)),
            G::DistinctFd(x) => t(x, m),
            G::PlusZ(a, b, c) | G::TimesZ(a, b, c) => {
                t(a, m);
                t(b, m);
                t(c, m);
            }
            G::For(x, coll, body) | G::ForList(x, coll, body) => {
                *m = (*m).max(*x + 1);
                coll.iter().for_each(|c| t(c, m));
                body.iter().for_each(|b| g(b, m));
            }
            G::Match(_, tt, arms) => {
                t(tt, m);
                for (pats, body) in arms {
                    pats.iter().for_each(|p| t(p, m));
                    body.iter().for_each(|b| g(b, m));
                }
            }
            G::Call(_, ts) => ts.iter().for_each(|x| t(x, m)),
            G::Succeed | G::Fail | G::Probe(_) => {}
        }
    }
    let mut m = nq;
    gs.iter().for_each(|x| g(x, &mut m));
    m as usize
}
