//! C03: answers are fully reified, closed and carry their relevant constraints.
//! E3 over eq/diseq/fresh programs whose query variables are bound to lists, improper lists and
//! compound terms containing unbound variables.
use crate::ast::*;
use crate::conv::Ans;
use crate::ev::{Ctx, Violation};
use crate::pool::par_map;
use crate::refm::*;
use crate::run::{panic_site, run_query, End};
use serde_json::{json, Value};

pub fn programs(quick: bool, tags: bool) -> Vec<Program> {
    programs_level(if quick { 0 } else { 1 }, tags)
}

/// level 0: single constraint sets; 1: + every pair of constraint sets and a third statement
/// order; 2: + every triple of constraint sets.
pub fn programs_level(level: u8, tags: bool) -> Vec<Program> {
    let quick = level == 0;
    // query variables q0 (V0), q1 (V1); fresh x (V2), y (V3), h (V4)
    let q0 = T::V(0);
    let q1 = T::V(1);
    let x = T::V(2);
    let y = T::V(3);
    let h = T::V(4);
    let mut shapes0: Vec<T> = vec![
        T::list(vec![x.clone(), y.clone()]),
        T::cons(x.clone(), y.clone()),
        T::list(vec![x.clone(), T::list(vec![y.clone()])]),
        x.clone(),
        T::list(vec![T::I(1), x.clone(), x.clone()]),
    ];
    if tags {
        shapes0.extend(vec![
            T::Cmp(Tag::Pair, vec![x.clone(), y.clone()]),
            T::Cmp(Tag::Pair, vec![T::I(1), x.clone()]),
            T::Cmp(Tag::Box1, vec![T::list(vec![x.clone(), y.clone()])]),
            T::list(vec![T::Cmp(Tag::Pair, vec![x.clone(), T::I(1)]), y.clone()]),
            T::Cmp(Tag::Tuple, vec![x.clone(), y.clone()]),
            T::Cmp(Tag::Named, vec![y.clone(), x.clone()]),
            T::Cmp(Tag::Pair, vec![T::Cmp(Tag::Box1, vec![x.clone()]), T::cons(T::I(2), y.clone())]),
            T::Cmp(Tag::Rec, vec![x.clone(), T::Cmp(Tag::Rec, vec![y.clone(), T::Nil])]),
            T::Cmp(Tag::Holder, vec![T::Cmp(Tag::OptSome, vec![x.clone()]), y.clone()]),
            T::Cmp(Tag::Holder, vec![T::Cmp(Tag::OptNone, vec![]), x.clone()]),
            T::Cmp(Tag::Holder2, vec![x.clone(), T::Cmp(Tag::OptSome, vec![y.clone()])]),
            T::Cmp(Tag::Holder2, vec![x.clone(), T::Cmp(Tag::OptNone, vec![])]),
            T::Cmp(Tag::Outer, vec![x.clone(), T::Cmp(Tag::Named, vec![y.clone(), T::I(1)])]),
        ]);
    }
    let shapes1: Vec<Option<T>> = vec![None, Some(y.clone()), Some(T::list(vec![y.clone(), x.clone()])), Some(T::I(5)), Some(T::Cmp(Tag::Box1, vec![y.clone()]))];
    let shapes1: Vec<Option<T>> = if tags { shapes1 } else { shapes1.into_iter().filter(|s| !matches!(s, Some(T::Cmp(_, _)))).collect() };
    let cons: Vec<Vec<G>> = vec![
        vec![],
        vec![G::Neq(x.clone(), T::I(3))],
        vec![G::Neq(y.clone(), x.clone())],
        vec![G::Neq(T::list(vec![x.clone(), y.clone()]), T::list(vec![T::I(1), T::I(2)]))],
        vec![G::Neq(x.clone(), T::list(vec![y.clone()]))],
        vec![G::Neq(h.clone(), T::I(5))],
        vec![G::Neq(T::list(vec![x.clone(), h.clone()]), T::list(vec![T::I(1), T::I(2)]))],
        vec![G::Neq(x.clone(), T::I(3)), G::Neq(y.clone(), T::I(4))],
        vec![G::Eq(x.clone(), y.clone()), G::Neq(y.clone(), T::I(7))],
        vec![G::Neq(x.clone(), T::I(3)), G::Eq(x.clone(), T::I(4))],
        vec![G::Neq(x.clone(), h.clone()), G::Eq(h.clone(), T::I(9))],
        vec![G::Neq(q0.clone(), T::I(3))],
        // a bound hidden variable nested inside the value side (either statement order)
        vec![G::Eq(h.clone(), T::I(5)), G::Neq(x.clone(), T::list(vec![h.clone(), T::I(1)]))],
        vec![G::Neq(x.clone(), T::list(vec![h.clone(), T::I(1)])), G::Eq(h.clone(), T::I(5))],
        vec![G::Neq(y.clone(), T::cons(T::I(1), h.clone())), G::Eq(h.clone(), T::list(vec![T::I(2)]))],
    ];
    let mut cons = cons;
    if tags {
        // Some(_) and None in an Option field are different structures of one Rust type
        let some = |t: &T| T::Cmp(Tag::OptSome, vec![t.clone()]);
        let none = T::Cmp(Tag::OptNone, vec![]);
        cons.push(vec![G::Neq(T::Cmp(Tag::Holder, vec![some(&x), y.clone()]), T::Cmp(Tag::Holder, vec![none.clone(), T::I(2)]))]);
        cons.push(vec![G::Eq(T::Cmp(Tag::Holder, vec![some(&T::I(1)), y.clone()]), T::Cmp(Tag::Holder, vec![none.clone(), T::I(2)]))]);
        cons.push(vec![G::Eq(T::Cmp(Tag::Holder, vec![some(&x), y.clone()]), T::Cmp(Tag::Holder, vec![some(&T::I(1)), h.clone()])), G::Neq(h.clone(), T::I(2))]);
        cons.push(vec![G::Neq(T::Cmp(Tag::Holder, vec![some(&x), y.clone()]), T::Cmp(Tag::Holder, vec![some(&T::I(1)), T::I(2)]))]);
    }
    if !quick {
        // thorough: every pair of constraint sets as well
        let singles = cons.clone();
        for (i, a) in singles.iter().enumerate() {
            for b in singles.iter().skip(i + 1) {
                if a.is_empty() || b.is_empty() {
                    continue;
                }
                let mut ab = a.clone();
                ab.extend(b.iter().cloned());
                cons.push(ab);
            }
        }
        if level >= 2 {
            for (i, a) in singles.iter().enumerate() {
                for (j, b) in singles.iter().enumerate().skip(i + 1) {
                    for c in singles.iter().skip(j + 1) {
                        if a.is_empty() || b.is_empty() || c.is_empty() {
                            continue;
                        }
                        let mut abc = a.clone();
                        abc.extend(b.iter().cloned());
                        abc.extend(c.iter().cloned());
                        cons.push(abc);
                    }
                }
            }
        }
    }
    let mut out = vec![];
    for s0 in &shapes0 {
        for s1 in &shapes1 {
            for c in &cons {
                let nq = if s1.is_some() { 2 } else { 1 };
                let mut binds = vec![G::Eq(q0.clone(), s0.clone())];
                if let Some(s) = s1 {
                    binds.push(G::Eq(q1.clone(), s.clone()));
                }
                // constraints after the bindings, before them, and in between
                let mut a = binds.clone();
                a.extend(c.iter().cloned());
                out.push(Program { nq, body: vec![G::Fresh(vec![2, 3, 4], a)] });
                let mut b: Vec<G> = c.clone();
                b.extend(binds.iter().cloned());
                out.push(Program { nq, body: vec![G::Fresh(vec![2, 3, 4], b)] });
                if !quick && binds.len() == 2 && !c.is_empty() {
                    let mut m = vec![binds[0].clone()];
                    m.extend(c.iter().cloned());
                    m.push(binds[1].clone());
                    out.push(Program { nq, body: vec![G::Fresh(vec![2, 3, 4], m)] });
                }
            }
        }
    }
    out
}

pub fn judge(p: &Program, a: &Ans, index: usize, family: &str, viols: &mut Vec<Violation>) -> bool {
    let sig = p.to_string();
    let mk = |kind: &str, detail: String| Violation { kind: kind.into(), sig: sig.clone(), site: String::new(), detail, family: family.into(), index, schedule: vec![], data: Value::Null };
    // (1) every variable in the answer terms is a reified `_` variable
    let mut term_vars: Vec<T> = vec![];
    for t in &a.terms {
        t.vars(&mut term_vars);
    }
    for v in &term_vars {
        if let T::A(k) = v {
            if !a.any_flags.get(*k as usize).copied().unwrap_or(false) {
                viols.push(mk("unreified-variable", format!("answer {} contains a variable that is not a reified `_` variable", a)));
            }
        }
    }
    // sharing pattern equals the mgu's (one `_` per distinct unbound variable, shared consistently)
    let mut next = crate::run::nvars_of(p.nq, &p.body) as u32;
    let q: Vec<T> = (0..p.nq).map(T::V).collect();
    let ps = paths(&p.body, &mut next);
    if ps.len() == 1 {
        if let Some(s) = solve_path(&ps[0]) {
            let exp = canon_tuple(&q.iter().map(|t| s.sigma.apply(t)).collect::<Vec<_>>());
            if exp != a.terms {
                viols.push(mk("wrong-sharing", format!("answer terms ({}) but the substitution gives ({})", a.terms.iter().map(|t| t.to_string()).collect::<Vec<_>>().join(", "), exp.iter().map(|t| t.to_string()).collect::<Vec<_>>().join(", "))));
            } else if let Some(w) = constraints_differ(p, &q, &s, a) {
                viols.push(mk("wrong-constraints", format!("answer {}: the reported constraints and the posted disequalities disagree for {}", a, w)));
            }
        }
    }
    // (2) reported constraints mention only reified variables of this answer
    for c in &a.cons {
        let mut vs = vec![];
        for (l, r) in c {
            l.vars(&mut vs);
            r.vars(&mut vs);
        }
        for v in vs {
            if !term_vars.contains(&v) {
                viols.push(mk("constraint-on-foreign-variable", format!("answer {}: reported constraint {:?} mentions a variable that does not occur in the answer", a, c.iter().map(|(l, r)| format!("{} != {}", l, r)).collect::<Vec<_>>())));
                break;
            }
        }
    }
    // (3) constraints() of each query variable = reported constraints on variables occurring in it
    let mut has_cons = false;
    for (i, t) in a.terms.iter().enumerate() {
        let mut tv = vec![];
        t.vars(&mut tv);
        // required: constraints with an operand (a left-hand side, or a right-hand side that is
        // itself a variable) occurring in the term; allowed: any constraint mentioning one of the
        // term's variables anywhere
        let required: Vec<&Vec<(T, T)>> = a.cons.iter().filter(|c| c.iter().any(|(l, r)| tv.contains(l) || (r.is_var() && tv.contains(r)))).collect();
        let allowed: Vec<&Vec<(T, T)>> = a
            .cons
            .iter()
            .filter(|c| {
                c.iter().any(|(l, r)| {
                    let mut vs = vec![];
                    l.vars(&mut vs);
                    r.vars(&mut vs);
                    vs.iter().any(|v| tv.contains(v))
                })
            })
            .collect();
        let got: Vec<&Vec<(T, T)>> = a.per_var[i].iter().collect();
        if !required.is_empty() {
            has_cons = true;
        }
        let missing = required.iter().filter(|c| !got.contains(c)).count();
        let extra = got.iter().filter(|c| !allowed.contains(c)).count();
        if missing > 0 || extra > 0 {
            viols.push(mk(
                "constraints-of-result",
                format!(
                    "answer {}: constraints() of query variable {} (= {}) returns {} constraint(s): {} reported constraint(s) on a variable occurring in it are missing, {} returned constraint(s) do not mention it",
                    a,
                    var_name(i as u32),
                    t,
                    got.len(),
                    missing,
                    extra
                ),
            ));
        }
    }
    // `is_any_except(other)`: the result is an unconstrained-looking variable that a reported
    // disequality keeps apart from `other`, whichever side of the stored pair it is on
    for i in 0..a.terms.len() {
        for j in 0..a.terms.len() {
            if i == j || !matches!(a.terms[i], T::A(_)) || !matches!(a.terms[j], T::A(_)) || a.terms[i] == a.terms[j] {
                continue;
            }
            let expected = a.per_var[i].iter().any(|c| c.iter().any(|(l, r)| (*l == a.terms[i] && *r == a.terms[j]) || (*l == a.terms[j] && *r == a.terms[i])));
            let got = a.any_except.contains(&(i, j));
            if expected != got {
                viols.push(mk(
                    "is-any-except",
                    format!("answer {}: {}.is_any_except({}) is {} but its constraints {} a pair keeping the two apart", a, var_name(i as u32), var_name(j as u32), got, if expected { "contain" } else { "do not contain" }),
                ));
            }
        }
    }
    has_cons
}

/// The reported constraints of an answer must say the same as the disequalities the program
/// posted (projected on the answer's variables: a disequality that still needs a binding of a
/// variable outside the answer to be violated can always be kept apart). Both are evaluated
/// under every assignment of the answer's variables over a small universe built from the
/// program's constants, fresh atoms and the ground instances of the constraint sides; a
/// disagreement on any assignment is a real difference (the universe can only miss one).
fn constraints_differ(p: &Program, q: &[T], s: &Solved, a: &Ans) -> Option<String> {
    // reference variable -> reified variable, by the canonical numbering of the tuple
    let tuple_ref: Vec<T> = q.iter().map(|t| s.sigma.apply(t)).collect();
    let mut order: Vec<T> = vec![];
    for t in &tuple_ref {
        let mut vs = vec![];
        t.vars(&mut vs);
        for v in vs {
            if !order.contains(&v) {
                order.push(v);
            }
        }
    }
    let rename = |t: &T| {
        t.map_vars(&mut |v| match order.iter().position(|o| o == v) {
            Some(k) => T::A(k as u32),
            None => v.clone(),
        })
    };
    let ref_neqs: Vec<(T, T)> = s.neqs.iter().map(|(l, r)| (rename(&s.sigma.apply(l)), rename(&s.sigma.apply(r)))).collect();
    let k = order.len();
    if k == 0 || k > 3 {
        return None;
    }
    // universe
    let mut atoms: Vec<T> = vec![];
    atoms_of_goals(&p.body, &mut atoms);
    atoms.truncate(5);
    atoms.extend(fresh_atoms(2));
    let mut sides: Vec<T> = vec![];
    for (l, r) in &ref_neqs {
        sides.push(l.clone());
        sides.push(r.clone());
    }
    for c in &a.cons {
        for (l, r) in c {
            sides.push(l.clone());
            sides.push(r.clone());
        }
    }
    let mut universe: Vec<T> = vec![];
    for t in &sides {
        for at in &atoms {
            let g = t.map_vars(&mut |_| at.clone());
            if !universe.contains(&g) {
                universe.push(g);
            }
        }
    }
    for at in &atoms {
        if !universe.contains(at) {
            universe.push(at.clone());
        }
    }
    let cap = match k {
        1 => 200,
        2 => 60,
        _ => 16,
    };
    universe.truncate(cap);
    let n = universe.len();
    let total = n.pow(k as u32);
    for code in 0..total {
        let mut c = code;
        let mut asg: Vec<T> = vec![];
        for _ in 0..k {
            asg.push(universe[c % n].clone());
            c /= n;
        }
        let inst = |t: &T| {
            t.map_vars(&mut |v| match v {
                T::A(i) if (*i as usize) < k => asg[*i as usize].clone(),
                other => other.clone(),
            })
        };
        // posted: violated iff some disequality has identical sides (sides that differ only in
        // variables outside the answer can be kept apart)
        let posted_ok = ref_neqs.iter().all(|(l, r)| inst(l) != inst(r));
        // reported: each constraint is "not all pairs equal"
        let reported_ok = a.cons.iter().all(|c| !c.iter().all(|(l, r)| inst(l) == inst(r)));
        if posted_ok != reported_ok {
            let show: Vec<String> = asg.iter().enumerate().map(|(i, t)| format!("_.{} = {}", i, t)).collect();
            return Some(format!("{} (posted disequalities {}, reported constraints {})", show.join(", "), if posted_ok { "hold" } else { "are violated" }, if reported_ok { "hold" } else { "are violated" }));
        }
    }
    None
}

fn check(p: &Program, index: usize) -> (Vec<Violation>, bool) {
    crate::ev::progress("c03", index, &Value::Null);
    let nvars = crate::run::nvars_of(p.nq, &p.body);
    let out = run_query(nvars, p, 20, 200_000);
    let mut viols = vec![];
    let mut has = false;
    match &out.end {
        End::Panic(m) => viols.push(Violation { kind: "panic".into(), sig: p.to_string(), site: panic_site(m), detail: m.clone(), family: "c03".into(), index, schedule: vec![], data: Value::Null }),
        End::Exhausted => {
            for a in &out.answers {
                if judge(p, a, index, "c03", &mut viols) {
                    has = true;
                }
            }
        }
        other => viols.push(Violation { kind: "no-termination".into(), sig: p.to_string(), site: String::new(), detail: format!("{:?}", other), family: "c03".into(), index, schedule: vec![], data: Value::Null }),
    }
    (viols, has)
}

pub fn run(ctx: &mut Ctx) {
    let quick = ctx.quick();
    ctx.set("rule", json!("E3: query variables bound to 13 term shapes (proper / improper / nested lists, repeated variables, five compound kinds, nested compounds, a recursive compound) x a second query variable sharing variables with the first x 12 constraint sets (disequalities on inner variables, between inner variables, multi-binding, on hidden variables, on the query variable itself, later satisfied / subsumed) x statement orders. Every answer: every variable is a reified `_` variable; the answer tuple equals the reference substitution up to renaming (one `_` per distinct unbound variable, shared across query variables); reported constraints mention only the answer's variables and say the same as the posted disequalities projected on the answer (evaluated under every assignment of the answer's variables over a small universe); LResult::constraints() of each query variable returns exactly the reported constraints that mention a variable occurring anywhere in its term. distinct_nontrivial = answers carrying constraints."));
    let progs = programs_level(if quick { 1 } else { 2 }, true);
    let sel: Vec<usize> = match &ctx.replay {
        Some(r) if r.family == "c03" => vec![r.index],
        Some(_) => vec![],
        None => (0..progs.len()).collect(),
    };
    let res = par_map(&sel, |_, i| check(&progs[*i], *i));
    let mut nontrivial = 0u64;
    for (vs, has) in res {
        if has {
            nontrivial += 1;
            ctx.hist("answers-with-relevant-constraints", 1);
        }
        for v in vs {
            ctx.violation(v);
        }
    }
    for p in progs.iter().step_by((progs.len() / 4).max(1)).take(4) {
        ctx.sample(json!({"program": p.to_string()}));
    }
    ctx.set("evaluations", json!(sel.len()));
    ctx.set("programs", json!(sel.len()));
    ctx.set("states", json!(sel.len()));
    ctx.set("transitions", json!(sel.len()));
    ctx.set("traces_validated_against_impl", json!(sel.len()));
    ctx.set("distinct_nontrivial", json!(nontrivial));
    ctx.require_nonzero("answers-with-relevant-constraints");
}
