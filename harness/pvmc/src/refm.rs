//! Reference models: Robinson unification (R1), ground-instance semantics (R2), FD brute force (R5).
use crate::ast::*;
use std::collections::{BTreeMap, HashMap};

/// Idempotent substitution on AST variables (both `V` and `A` kinds).
#[derive(Clone, Debug, Default, PartialEq, Eq)]
pub struct Subst(pub BTreeMap<T, T>);

impl Subst {
    pub fn new() -> Subst {
        Subst(BTreeMap::new())
    }
    pub fn walk<'a>(&'a self, mut t: &'a T) -> &'a T {
        while t.is_var() {
            match self.0.get(t) {
                Some(n) => t = n,
                None => break,
            }
        }
        t
    }
    pub fn apply(&self, t: &T) -> T {
        let w = self.walk(t);
        match w {
            T::Cons(h, tl) => T::cons(self.apply(h), self.apply(tl)),
            T::Cmp(tag, fs) => T::Cmp(*tag, fs.iter().map(|f| self.apply(f)).collect()),
            _ => w.clone(),
        }
    }
    fn occurs(&self, v: &T, t: &T) -> bool {
        let w = self.walk(t);
        match w {
            T::V(_) | T::A(_) => w == v,
            T::Cons(h, tl) => self.occurs(v, h) || self.occurs(v, tl),
            T::Cmp(_, fs) => fs.iter().any(|f| self.occurs(v, f)),
            _ => false,
        }
    }
    /// Robinson unification with occurs check. Returns the number of new bindings.
    pub fn unify(&mut self, a: &T, b: &T) -> Option<usize> {
        let a = self.walk(a).clone();
        let b = self.walk(b).clone();
        if a == b {
            return Some(0);
        }
        match (&a, &b) {
            (T::V(_), _) | (T::A(_), _) => {
                if self.occurs(&a, &b) {
                    None
                } else {
                    self.0.insert(a, b);
                    Some(1)
                }
            }
            (_, T::V(_)) | (_, T::A(_)) => {
                if self.occurs(&b, &a) {
                    None
                } else {
                    self.0.insert(b, a);
                    Some(1)
                }
            }
            (T::Cons(h1, t1), T::Cons(h2, t2)) => {
                let n = self.unify(h1, h2)?;
                let m = self.unify(t1, t2)?;
                Some(n + m)
            }
            (T::Cmp(g1, f1), T::Cmp(g2, f2)) => {
                if g1 != g2 || f1.len() != f2.len() {
                    return None;
                }
                let mut n = 0;
                for (x, y) in f1.iter().zip(f2.iter()) {
                    n += self.unify(x, y)?;
                }
                Some(n)
            }
            _ => None,
        }
    }
}

/// Renames the variables of a tuple of terms by first occurrence (`A(0)`, `A(1)`, ..), so that
/// two tuples are equal up to renaming iff their canonical forms are identical.
pub fn canon_tuple(ts: &[T]) -> Vec<T> {
    let mut map: HashMap<T, u32> = HashMap::new();
    ts.iter()
        .map(|t| {
            t.map_vars(&mut |v| {
                let n = map.len() as u32;
                T::A(*map.entry(v.clone()).or_insert(n))
            })
        })
        .collect()
}

/// One disjunction-free path of a pure program.
#[derive(Clone, Debug, Default)]
pub struct Path {
    pub eqs: Vec<(T, T)>,
    pub neqs: Vec<(T, T)>,
    pub fd: Vec<(FdKind, Vec<T>)>,
    pub doms: Vec<(T, Dom)>,
    pub distinct: Vec<T>,
}

/// Expands a goal into its paths. Only the pure fragment + FD is supported; fresh variables are
/// renamed apart per expansion using `next_var`.
pub fn paths(gs: &[G], next_var: &mut u32) -> Vec<Path> {
    let mut acc = vec![Path::default()];
    for g in gs {
        let ps = goal_paths(g, next_var);
        let mut out = vec![];
        for a in &acc {
            for p in &ps {
                let mut n = a.clone();
                n.eqs.extend(p.eqs.iter().cloned());
                n.neqs.extend(p.neqs.iter().cloned());
                n.fd.extend(p.fd.iter().cloned());
                n.doms.extend(p.doms.iter().cloned());
                n.distinct.extend(p.distinct.iter().cloned());
                out.push(n);
            }
        }
        acc = out;
    }
    acc
}

fn rename(g: &G, from: u32, to: u32) -> G {
    let mut f = |v: &T| if *v == T::V(from) { T::V(to) } else { v.clone() };
    fn rt(t: &T, f: &mut dyn FnMut(&T) -> T) -> T {
        t.map_vars(f)
    }
    fn rgs(gs: &[G], from: u32, to: u32) -> Vec<G> {
        gs.iter().map(|g| rename(g, from, to)).collect()
    }
    match g {
        G::Succeed | G::Fail | G::Probe(_) => g.clone(),
        G::Eq(a, b) => G::Eq(rt(a, &mut f), rt(b, &mut f)),
        G::Neq(a, b) => G::Neq(rt(a, &mut f), rt(b, &mut f)),
        G::Conj(gs) => G::Conj(rgs(gs, from, to)),
        G::Conde(arms) => G::Conde(arms.iter().map(|a| rgs(a, from, to)).collect()),
        G::Disj(gs) => G::Disj(rgs(gs, from, to)),
        G::Fresh(vs, gs) => {
            if vs.contains(&from) {
                g.clone()
            } else {
                G::Fresh(vs.clone(), rgs(gs, from, to))
            }
        }
        G::Closure(b) => G::Closure(Box::new(rename(b, from, to))),
        G::Conda(arms) => G::Conda(arms.iter().map(|a| rgs(a, from, to)).collect()),
        G::Condu(arms) => G::Condu(arms.iter().map(|a| rgs(a, from, to)).collect()),
        G::Onceo(gs) => G::Onceo(rgs(gs, from, to)),
        G::Dfs(gs) => G::Dfs(rgs(gs, from, to)),
        G::Anyo(gs) => G::Anyo(rgs(gs, from, to)),
        G::InFd(ts, d) => G::InFd(ts.iter().map(|t| rt(t, &mut f)).collect(), d.clone()),
        G::Fd(k, ts) => G::Fd(*k, ts.iter().map(|t| rt(t, &mut f)).collect()),
        G::DistinctFd(t) => G::DistinctFd(rt(t, &mut f)),
        G::PlusZ(a, b, c) => G::PlusZ(rt(a, &mut f), rt(b, &mut f), rt(c, &mut f)),
        G::TimesZ(a, b, c) => G::TimesZ(rt(a, &mut f), rt(b, &mut f), rt(c, &mut f)),
        G::Rel(r, ts) => G::Rel(*r, ts.iter().map(|t| rt(t, &mut f)).collect()),
        G::For(x, coll, body) | G::ForList(x, coll, body) => {
            let coll = coll.iter().map(|t| rt(t, &mut f)).collect();
            let nb = if *x == from { body.clone() } else { rgs(body, from, to) };
            if matches!(g, G::For(_, _, _)) {
                G::For(*x, coll, nb)
            } else {
                G::ForList(*x, coll, nb)
            }
        }
        G::Project(vs, gs) => G::Project(
            vs.iter().map(|v| if *v == from { to } else { *v }).collect(),
            rgs(gs, from, to),
        ),
        G::Match(kind, t, arms) => G::Match(
            *kind,
            rt(t, &mut f),
            arms.iter()
                .map(|(pats, body)| {
                    // names in a pattern are local to the arm: an arm binding `from` shadows it
                    if pats.iter().any(|p| p.has_var(&T::V(from))) {
                        (pats.clone(), body.clone())
                    } else {
                        (pats.clone(), rgs(body, from, to))
                    }
                })
                .collect(),
        ),
        G::Call(n, ts) => G::Call(n.clone(), ts.iter().map(|t| rt(t, &mut f)).collect()),
    }
}

/// Substitutes variable `x` by term `t` in a goal (for `for`).
pub fn subst_goal(g: &G, x: u32, t: &T) -> G {
    let mut f = |v: &T| if *v == T::V(x) { t.clone() } else { v.clone() };
    fn rt(t: &T, f: &mut dyn FnMut(&T) -> T) -> T {
        t.map_vars(f)
    }
    let sg = |gs: &[G]| -> Vec<G> { gs.iter().map(|g| subst_goal(g, x, t)).collect() };
    match g {
        G::Succeed | G::Fail | G::Probe(_) => g.clone(),
        G::Eq(a, b) => G::Eq(rt(a, &mut f), rt(b, &mut f)),
        G::Neq(a, b) => G::Neq(rt(a, &mut f), rt(b, &mut f)),
        G::Conj(gs) => G::Conj(sg(gs)),
        G::Conde(arms) => G::Conde(arms.iter().map(|a| sg(a)).collect()),
        G::Disj(gs) => G::Disj(sg(gs)),
        G::Fresh(vs, gs) => {
            if vs.contains(&x) {
                g.clone()
            } else {
                G::Fresh(vs.clone(), sg(gs))
            }
        }
        G::Closure(b) => G::Closure(Box::new(subst_goal(b, x, t))),
        G::Conda(arms) => G::Conda(arms.iter().map(|a| sg(a)).collect()),
        G::Condu(arms) => G::Condu(arms.iter().map(|a| sg(a)).collect()),
        G::Onceo(gs) => G::Onceo(sg(gs)),
        G::Dfs(gs) => G::Dfs(sg(gs)),
        G::Anyo(gs) => G::Anyo(sg(gs)),
        G::InFd(ts, d) => G::InFd(ts.iter().map(|t| rt(t, &mut f)).collect(), d.clone()),
        G::Fd(k, ts) => G::Fd(*k, ts.iter().map(|t| rt(t, &mut f)).collect()),
        G::DistinctFd(tt) => G::DistinctFd(rt(tt, &mut f)),
        G::PlusZ(a, b, c) => G::PlusZ(rt(a, &mut f), rt(b, &mut f), rt(c, &mut f)),
        G::TimesZ(a, b, c) => G::TimesZ(rt(a, &mut f), rt(b, &mut f), rt(c, &mut f)),
        G::Rel(r, ts) => G::Rel(*r, ts.iter().map(|t| rt(t, &mut f)).collect()),
        G::For(y, coll, body) | G::ForList(y, coll, body) => {
            let coll = coll.iter().map(|t| rt(t, &mut f)).collect();
            let nb = if *y == x { body.clone() } else { sg(body) };
            if matches!(g, G::For(_, _, _)) {
                G::For(*y, coll, nb)
            } else {
                G::ForList(*y, coll, nb)
            }
        }
        G::Project(vs, gs) => G::Project(vs.clone(), sg(gs)),
        G::Match(kind, tt, arms) => G::Match(
            *kind,
            rt(tt, &mut f),
            arms.iter()
                .map(|(pats, body)| {
                    if pats.iter().any(|p| p.has_var(&T::V(x))) {
                        (pats.clone(), body.clone())
                    } else {
                        (pats.clone(), sg(body))
                    }
                })
                .collect(),
        ),
        G::Call(n, ts) => G::Call(n.clone(), ts.iter().map(|t| rt(t, &mut f)).collect()),
    }
}

fn goal_paths(g: &G, next_var: &mut u32) -> Vec<Path> {
    match g {
        G::Succeed => vec![Path::default()],
        G::Fail => vec![],
        G::Eq(a, b) => vec![Path {
            eqs: vec![(a.clone(), b.clone())],
            ..Default::default()
        }],
        G::Neq(a, b) => vec![Path {
            neqs: vec![(a.clone(), b.clone())],
            ..Default::default()
        }],
        G::Conj(gs) | G::Dfs(gs) => paths(gs, next_var),
        G::Conde(arms) => arms.iter().flat_map(|a| paths(a, next_var)).collect(),
        G::Disj(gs) => gs.iter().flat_map(|g| goal_paths(g, next_var)).collect(),
        G::Fresh(vs, gs) => {
            // Lexical scoping: each entry into the fresh clause gets new variables.
            let mut body: Vec<G> = gs.clone();
            for v in vs {
                let nv = *next_var;
                *next_var += 1;
                body = body.iter().map(|g| rename(g, *v, nv)).collect();
            }
            paths(&body, next_var)
        }
        G::Closure(b) => goal_paths(b, next_var),
        G::InFd(ts, d) => vec![Path {
            doms: ts.iter().map(|t| (t.clone(), d.clone())).collect(),
            ..Default::default()
        }],
        G::Fd(k, ts) => vec![Path {
            fd: vec![(*k, ts.clone())],
            ..Default::default()
        }],
        G::DistinctFd(t) => vec![Path {
            distinct: vec![t.clone()],
            ..Default::default()
        }],
        G::For(x, coll, body) | G::ForList(x, coll, body) => {
            let mut gs = vec![];
            for el in coll {
                for b in body {
                    gs.push(subst_goal(b, *x, el));
                }
            }
            paths(&gs, next_var)
        }
        G::Project(_, gs) => paths(gs, next_var),
        // CLP(Z) equations over variables that all carry finite domains (the fd-t4 family):
        // over the domain product they are the same equations as plusfd / timesfd
        G::PlusZ(a, b, c) => vec![Path {
            fd: vec![(FdKind::Plus, vec![a.clone(), b.clone(), c.clone()])],
            ..Default::default()
        }],
        G::TimesZ(a, b, c) => vec![Path {
            fd: vec![(FdKind::Times, vec![a.clone(), b.clone(), c.clone()])],
            ..Default::default()
        }],
        other => panic!("reference path semantics does not cover {}", other),
    }
}

/// Result of normalising one path: the mgu and the disequations that remain, each as a list of
/// (variable, term) pairs denoting "not all of these hold".
#[derive(Clone, Debug)]
pub struct Solved {
    pub sigma: Subst,
    pub neqs: Vec<(T, T)>,
}

pub fn solve_path(p: &Path) -> Option<Solved> {
    let mut s = Subst::new();
    for (a, b) in &p.eqs {
        s.unify(a, b)?;
    }
    // A disequation whose sides are already identical kills the path.
    for (a, b) in &p.neqs {
        let mut t = s.clone();
        if let Some(0) = t.unify(a, b) {
            return None;
        }
    }
    Some(Solved {
        sigma: s,
        neqs: p.neqs.clone(),
    })
}

/// One-way matching of a pattern (with variables) against a ground term.
fn pmatch(pat: &T, g: &T, theta: &mut BTreeMap<T, T>) -> bool {
    match pat {
        T::V(_) | T::A(_) => match theta.get(pat) {
            Some(prev) => prev == g,
            None => {
                theta.insert(pat.clone(), g.clone());
                true
            }
        },
        T::Cons(h, t) => match g {
            T::Cons(gh, gt) => pmatch(h, gh, theta) && pmatch(t, gt, theta),
            _ => false,
        },
        T::Cmp(tag, fs) => match g {
            T::Cmp(gtag, gfs) if gtag == tag && gfs.len() == fs.len() => {
                fs.iter().zip(gfs.iter()).all(|(p, q)| pmatch(p, q, theta))
            }
            _ => false,
        },
        _ => pat == g,
    }
}

/// An answer as a set description: a tuple pattern plus disequations over its variables and
/// possibly other (existential) variables. `g` is an instance iff the tuple matches `g` and no
/// disequation has sides that are identical after instantiation (sides that still need a
/// binding of an existential variable to coincide can always be kept apart: independence of
/// negative constraints over an infinite Herbrand universe).
#[derive(Clone, Debug)]
pub struct AnsSet {
    pub tuple: Vec<T>,
    /// each entry: a conjunction of (lhs, rhs) that must NOT all hold
    pub neqs: Vec<Vec<(T, T)>>,
}

impl AnsSet {
    pub fn from_solved(q: &[T], s: &Solved) -> AnsSet {
        AnsSet {
            tuple: q.iter().map(|t| s.sigma.apply(t)).collect(),
            neqs: s
                .neqs
                .iter()
                .map(|(a, b)| vec![(s.sigma.apply(a), s.sigma.apply(b))])
                .collect(),
        }
    }

    pub fn contains(&self, g: &[T]) -> bool {
        let mut theta = BTreeMap::new();
        for (p, v) in self.tuple.iter().zip(g.iter()) {
            if !pmatch(p, v, &mut theta) {
                return false;
            }
        }
        let inst = Subst(theta);
        for d in &self.neqs {
            // the disequation is violated iff all pairs unify with an empty extension
            let mut s = inst.clone();
            let mut total = 0usize;
            let mut failed = false;
            for (a, b) in d {
                match s.unify(a, b) {
                    Some(n) => total += n,
                    None => {
                        failed = true;
                        break;
                    }
                }
            }
            if !failed && total == 0 {
                return false;
            }
        }
        true
    }
}

/// A finite universe of ground tuples used to tabulate instance sets.
pub struct Universe {
    pub values: Vec<T>,
    pub arity: usize,
}

impl Universe {
    /// atoms: program constants plus fresh ones. Structured values (lists of length 1..2,
    /// improper pairs, compounds of `tags`) are included when `structured`.
    pub fn new(atoms: &[T], tags: &[Tag], structured: bool, arity: usize) -> Universe {
        let mut values: Vec<T> = atoms.to_vec();
        values.push(T::Nil);
        if structured {
            let base: Vec<T> = values.clone();
            for a in &base {
                values.push(T::list(vec![a.clone()]));
            }
            for a in atoms {
                for b in atoms {
                    values.push(T::list(vec![a.clone(), b.clone()]));
                    values.push(T::cons(a.clone(), b.clone()));
                    for tag in tags {
                        if tag.arity() == 2 {
                            values.push(T::Cmp(*tag, vec![a.clone(), b.clone()]));
                        }
                    }
                }
                for tag in tags {
                    if tag.arity() == 1 {
                        values.push(T::Cmp(*tag, vec![a.clone()]));
                    }
                }
            }
        }
        values.sort();
        values.dedup();
        Universe { values, arity }
    }

    pub fn size(&self) -> usize {
        self.values.len().pow(self.arity as u32)
    }

    pub fn tuple(&self, mut idx: usize) -> Vec<T> {
        let n = self.values.len();
        let mut out = Vec::with_capacity(self.arity);
        for _ in 0..self.arity {
            out.push(self.values[idx % n].clone());
            idx /= n;
        }
        out
    }

    /// Bitset of the instances of `a` in this universe.
    pub fn tabulate(&self, a: &AnsSet) -> Vec<u64> {
        let n = self.size();
        let mut bits = vec![0u64; (n + 63) / 64];
        for i in 0..n {
            if a.contains(&self.tuple(i)) {
                bits[i / 64] |= 1 << (i % 64);
            }
        }
        bits
    }
}

pub fn bits_or(a: &mut Vec<u64>, b: &[u64]) {
    for (x, y) in a.iter_mut().zip(b.iter()) {
        *x |= *y;
    }
}

pub fn bits_count(a: &[u64]) -> usize {
    a.iter().map(|x| x.count_ones() as usize).sum()
}

pub fn first_diff(a: &[u64], b: &[u64]) -> Option<usize> {
    for (i, (x, y)) in a.iter().zip(b.iter()).enumerate() {
        let d = x ^ y;
        if d != 0 {
            return Some(i * 64 + d.trailing_zeros() as usize);
        }
    }
    None
}

/// Collects the atomic constants of a program.
pub fn atoms_of_goals(gs: &[G], out: &mut Vec<T>) {
    fn at(t: &T, out: &mut Vec<T>) {
        match t {
            T::I(_) | T::B(_) | T::C(_) | T::S(_) => {
                if !out.contains(t) {
                    out.push(t.clone())
                }
            }
            T::Cons(h, tl) => {
                at(h, out);
                at(tl, out);
            }
            T::Cmp(_, fs) => fs.iter().for_each(|f| at(f, out)),
            _ => {}
        }
    }
    for g in gs {
        match g {
            G::Eq(a, b) | G::Neq(a, b) => {
                at(a, out);
                at(b, out);
            }
            G::Conj(gs) | G::Disj(gs) | G::Onceo(gs) | G::Dfs(gs) | G::Anyo(gs) => atoms_of_goals(gs, out),
            G::Fresh(_, gs) | G::Project(_, gs) => atoms_of_goals(gs, out),
            G::Conde(arms) | G::Conda(arms) | G::Condu(arms) => {
                arms.iter().for_each(|a| atoms_of_goals(a, out))
            }
            G::Closure(b) => atoms_of_goals(std::slice::from_ref(b), out),
            G::InFd(ts, _) | G::Fd(_, ts) | G::Rel(_, ts) => ts.iter().for_each(|t| at(t, out)),
            G::DistinctFd(t) => at(t, out),
            G::PlusZ(a, b, c) | G::TimesZ(a, b, c) => {
                at(a, out);
                at(b, out);
                at(c, out);
            }
            G::For(_, coll, body) | G::ForList(_, coll, body) => {
                coll.iter().for_each(|t| at(t, out));
                atoms_of_goals(body, out);
            }
            G::Match(_, t, arms) => {
                at(t, out);
                for (pats, body) in arms {
                    pats.iter().for_each(|p| at(p, out));
                    atoms_of_goals(body, out);
                }
            }
            G::Call(_, ts) => ts.iter().for_each(|t| at(t, out)),
            G::Succeed | G::Fail | G::Probe(_) => {}
        }
    }
}

pub fn fresh_atoms(k: usize) -> Vec<T> {
    (0..k).map(|i| T::S(format!("#{}", i))).collect()
}

/// Converts an observed answer into its set description.
pub fn ansset_of_observed(terms: &[T], cons: &[Vec<(T, T)>]) -> AnsSet {
    AnsSet {
        tuple: terms.to_vec(),
        neqs: cons.to_vec(),
    }
}

// ---------------------------------------------------------------------------------------------
// R5: finite-domain brute force

/// Brute-force solutions of one FD path, projected onto the query tuple.
/// Returns None if the path is outside the supported fragment (a constrained variable without
/// domain, or non-integer bindings of constrained variables).
pub fn fd_solutions(q: &[T], p: &Path) -> Option<Vec<Vec<T>>> {
    let mut s = Subst::new();
    for (a, b) in &p.eqs {
        if s.unify(a, b).is_none() {
            return Some(vec![]);
        }
    }
    // Domain variables after the mgu; a domain on a non-variable is a membership test.
    let mut doms: BTreeMap<T, Vec<i64>> = BTreeMap::new();
    for (t, d) in &p.doms {
        let w = s.apply(t);
        let vals = d.values();
        match &w {
            T::I(n) => {
                if !vals.contains(n) {
                    return Some(vec![]);
                }
            }
            T::V(_) => {
                let e = doms.entry(w.clone()).or_insert_with(|| vals.clone());
                e.retain(|x| vals.contains(x));
            }
            _ => return Some(vec![]),
        }
    }
    // All operands of constraints must be integers or domain variables.
    let mut operands: Vec<T> = vec![];
    for (_, ts) in &p.fd {
        for t in ts {
            operands.push(s.apply(t));
        }
    }
    for l in &p.distinct {
        let w = s.apply(l);
        let (items, tail) = w.list_parts();
        if *tail != T::Nil {
            return None;
        }
        for i in items {
            operands.push(i.clone());
        }
    }
    for o in &operands {
        match o {
            T::I(_) => {}
            T::V(_) if doms.contains_key(o) => {}
            _ => return None,
        }
    }
    let vars: Vec<T> = doms.keys().cloned().collect();
    let mut out = vec![];
    let mut idx = vec![0usize; vars.len()];
    if vars.iter().any(|v| doms[v].is_empty()) {
        return Some(vec![]);
    }
    'outer: loop {
        let mut asg = s.clone();
        for (i, v) in vars.iter().enumerate() {
            asg.0.insert(v.clone(), T::I(doms[v][idx[i]]));
        }
        let val = |t: &T| -> i64 {
            match asg.apply(t) {
                T::I(n) => n,
                other => panic!("non-integer operand {}", other),
            }
        };
        let mut ok = true;
        for (k, ts) in &p.fd {
            let a: Vec<i64> = ts.iter().map(|t| val(t)).collect();
            if !k.holds(&a) {
                ok = false;
                break;
            }
        }
        if ok {
            for l in &p.distinct {
                let w = asg.apply(l);
                let (items, _) = w.list_parts();
                let mut seen = vec![];
                for i in items {
                    if seen.contains(&i) {
                        ok = false;
                    }
                    seen.push(i);
                }
            }
        }
        if ok {
            // tree disequalities on the assigned values
            for (a, b) in &p.neqs {
                if asg.apply(a) == asg.apply(b) {
                    ok = false;
                }
            }
        }
        if ok {
            out.push(q.iter().map(|t| asg.apply(t)).collect::<Vec<T>>());
        }
        // next assignment
        let mut i = 0;
        loop {
            if i == vars.len() {
                break 'outer;
            }
            idx[i] += 1;
            if idx[i] < doms[&vars[i]].len() {
                break;
            }
            idx[i] = 0;
            i += 1;
        }
    }
    out.sort();
    // Distinct assignments of hidden variables may project to the same query tuple: labeling must
    // return each projected tuple once.
    out.dedup();
    Some(out)
}
