//! CLP(FD) program families (C16 soundness, C17 labeling completeness/uniqueness) and their
//! checker: bounded-exhaustive programs (E3) run under hash-order schedules (E2) against brute
//! force over the domain product (R5).
use crate::ast::*;
use crate::ev::Violation;
use crate::refm::*;
use crate::run::{panic_site, run_query, End};
use crate::sched;
use serde_json::Value;

pub const FD_SITES: [&str; 3] = ["run_constraints", "process_extension_fd", "enforce_constraints_fd"];

pub fn domains(quick: bool) -> Vec<Dom> {
    if quick {
        vec![Dom::Range(-2, 2), Dom::Range(0, 2), Dom::Sparse(vec![-1, 1, 3])]
    } else {
        // the last two are value lists as a caller may write them: a repeated value (in ascending
        // order, and out of order) still denotes a set
        vec![Dom::Range(-2, 2), Dom::Range(0, 2), Dom::Range(1, 3), Dom::Sparse(vec![-1, 1, 3]), Dom::Sparse(vec![0, 2]), Dom::Sparse(vec![-1, -1, 0, 2]), Dom::Sparse(vec![2, 0, 2])]
    }
}

pub fn permutations<X: Clone>(items: &[X]) -> Vec<Vec<X>> {
    if items.len() <= 1 {
        return vec![items.to_vec()];
    }
    let mut out = vec![];
    for i in 0..items.len() {
        let mut rest = items.to_vec();
        let x = rest.remove(i);
        for mut p in permutations(&rest) {
            p.insert(0, x.clone());
            out.push(p);
        }
    }
    out
}

/// Renames the variables of a statement list so that they are 0..k in order of first use.
fn normalise_vars(stmts: &[G]) -> (Vec<G>, u32) {
    let mut used: Vec<u32> = vec![];
    fn tv(t: &T, used: &mut Vec<u32>) {
        let mut vs = vec![];
        t.vars(&mut vs);
        for v in vs {
            if let T::V(i) = v {
                if !used.contains(&i) {
                    used.push(i);
                }
            }
        }
    }
    for g in stmts {
        match g {
            G::Fd(_, ts) | G::InFd(ts, _) => ts.iter().for_each(|t| tv(t, &mut used)),
            G::DistinctFd(t) => tv(t, &mut used),
            G::Eq(a, b) | G::Neq(a, b) => {
                tv(a, &mut used);
                tv(b, &mut used);
            }
            _ => {}
        }
    }
    let mut out: Vec<G> = stmts.to_vec();
    // two-phase rename through a high range to avoid clashes
    for (new, old) in used.iter().enumerate() {
        out = out.iter().map(|g| rename_var(g, *old, 1000 + new as u32)).collect();
    }
    for new in 0..used.len() as u32 {
        out = out.iter().map(|g| rename_var(g, 1000 + new, new)).collect();
    }
    (out, used.len() as u32)
}

fn rename_var(g: &G, from: u32, to: u32) -> G {
    crate::refm::subst_goal(g, from, &T::V(to))
}

/// Tier T1: one constraint, every operand pattern (with aliasing and constants), every domain
/// assignment, every statement order.
pub fn tier1(quick: bool) -> Vec<Program> {
    let mut out = vec![];
    for base in tier1_base(quick) {
        for perm in permutations(&base.body) {
            out.push(Program { nq: base.nq, body: perm });
        }
    }
    out
}

/// One statement order per T1 program (domains first, then the constraint).
pub fn tier1_base(quick: bool) -> Vec<Program> {
    let doms = domains(quick);
    let consts: Vec<T> = vec![T::I(-1), T::I(0), T::I(2)];
    let vars: Vec<T> = vec![T::V(0), T::V(1), T::V(2)];
    let mut out = vec![];
    let mut seen = std::collections::HashSet::new();
    let mut constraints: Vec<G> = vec![];
    for k in FdKind::ALL {
        let ops: Vec<T> = if k.arity() == 2 {
            vec![vars[0].clone(), vars[1].clone()].into_iter().chain(consts.iter().cloned()).collect()
        } else {
            vars.iter().cloned().chain(consts.iter().cloned()).collect()
        };
        for pat in crate::e4::product(&ops, k.arity()) {
            if pat.iter().all(|t| !t.is_var()) {
                // all-constant constraints: keep one representative per kind that holds and one that fails
                if !(pat[0] == T::I(0) || pat[0] == T::I(2)) {
                    continue;
                }
            }
            constraints.push(G::Fd(k, pat));
        }
    }
    // distinctfd over lists of 2..3 elements
    let dops: Vec<T> = vars.iter().cloned().chain(vec![T::I(0), T::I(2)]).collect();
    for n in 2..=3 {
        for pat in crate::e4::product(&dops, n) {
            if pat.iter().filter(|t| t.is_var()).count() == 0 {
                continue;
            }
            constraints.push(G::DistinctFd(T::list(pat)));
        }
    }
    for c in constraints {
        let (cn, nv) = normalise_vars(&[c]);
        let c = cn[0].clone();
        if !seen.insert(c.clone()) {
            continue;
        }
        for da in crate::e4::product(&doms, nv as usize) {
            let mut stmts: Vec<G> = (0..nv).map(|i| G::InFd(vec![T::V(i)], da[i as usize].clone())).collect();
            stmts.push(c.clone());
            out.push(Program { nq: nv, body: stmts });
        }
    }
    out
}

/// Tier T2: two constraints sharing variables, `==` between FD variables / constants mixed in.
pub fn tier2(quick: bool) -> Vec<Program> {
    let x = T::V(0);
    let y = T::V(1);
    let z = T::V(2);
    let doms: Vec<Dom> = if quick { vec![Dom::Range(-1, 2), Dom::Sparse(vec![0, 1, 3])] } else { vec![Dom::Range(-1, 2), Dom::Range(0, 3), Dom::Sparse(vec![0, 1, 3])] };
    // a pool of constraints over x, y, z
    let pool: Vec<G> = vec![
        G::Fd(FdKind::Plus, vec![x.clone(), y.clone(), z.clone()]),
        G::Fd(FdKind::Minus, vec![z.clone(), x.clone(), y.clone()]),
        G::Fd(FdKind::Times, vec![x.clone(), y.clone(), z.clone()]),
        G::Fd(FdKind::Lte, vec![x.clone(), y.clone()]),
        G::Fd(FdKind::Lt, vec![y.clone(), z.clone()]),
        G::Fd(FdKind::Diseq, vec![x.clone(), z.clone()]),
        G::Fd(FdKind::Plus, vec![x.clone(), x.clone(), y.clone()]),
        G::Fd(FdKind::Times, vec![x.clone(), T::I(2), z.clone()]),
        G::DistinctFd(T::list(vec![x.clone(), y.clone(), z.clone()])),
        G::DistinctFd(T::list(vec![x.clone(), T::I(1), z.clone()])),
        G::Eq(x.clone(), y.clone()),
        G::Eq(y.clone(), T::I(1)),
        G::Eq(z.clone(), x.clone()),
    ];
    let mut out = vec![];
    for i in 0..pool.len() {
        for j in (i + 1)..pool.len() {
            // at least one FD constraint
            if matches!(pool[i], G::Eq(_, _)) && matches!(pool[j], G::Eq(_, _)) {
                continue;
            }
            for d in &doms {
                for d2 in &doms {
                    // x and y share d, z gets d2 (keeps the family small but mixes representations)
                    let stmts = vec![
                        G::InFd(vec![x.clone(), y.clone()], d.clone()),
                        G::InFd(vec![z.clone()], d2.clone()),
                        pool[i].clone(),
                        pool[j].clone(),
                    ];
                    let perms = permutations(&stmts);
                    for (pi, perm) in perms.into_iter().enumerate() {
                        if quick && pi % 3 != 0 {
                            continue;
                        }
                        out.push(Program { nq: 3, body: perm });
                    }
                }
            }
        }
    }
    // asymmetric domains: one variable with a small domain that a distinctfd constant reduces to a
    // singleton (so it is bound while the propagator is still working through its list), another
    // with a wide domain, an ordering / arithmetic link between them posted before or after
    {
        let small: Vec<Dom> = vec![Dom::Sparse(vec![1, 3]), Dom::Range(0, 1), Dom::Range(1, 2)];
        let wide: Vec<Dom> = vec![Dom::Range(0, 5), Dom::Range(-1, 2)];
        let links: Vec<G> = vec![
            G::Fd(FdKind::Lte, vec![x.clone(), z.clone()]),
            G::Fd(FdKind::Lte, vec![z.clone(), x.clone()]),
            G::Fd(FdKind::Lt, vec![x.clone(), z.clone()]),
            G::Fd(FdKind::Lt, vec![z.clone(), x.clone()]),
            G::Fd(FdKind::Diseq, vec![x.clone(), z.clone()]),
            G::Fd(FdKind::Plus, vec![x.clone(), T::I(1), z.clone()]),
            G::Fd(FdKind::Plus, vec![x.clone(), y.clone(), z.clone()]),
            G::Fd(FdKind::Times, vec![x.clone(), y.clone(), z.clone()]),
        ];
        let distincts: Vec<G> = vec![
            G::DistinctFd(T::list(vec![x.clone(), z.clone(), T::I(1)])),
            G::DistinctFd(T::list(vec![z.clone(), x.clone(), T::I(1)])),
            G::DistinctFd(T::list(vec![T::I(1), x.clone(), z.clone()])),
            G::DistinctFd(T::list(vec![x.clone(), y.clone(), z.clone(), T::I(1)])),
            G::DistinctFd(T::list(vec![x.clone(), z.clone(), T::I(3)])),
        ];
        for ds in &small {
            for dw in &wide {
                for l in &links {
                    for d in &distincts {
                        let stmts = vec![
                            G::InFd(vec![x.clone()], ds.clone()),
                            G::InFd(vec![y.clone()], Dom::Range(0, 2)),
                            G::InFd(vec![z.clone()], dw.clone()),
                            l.clone(),
                            d.clone(),
                        ];
                        // domains first in both relative orders of the two constraints, and every
                        // position of the distinct constraint among the other statements
                        let mut orders: Vec<Vec<usize>> = vec![vec![0, 1, 2, 3, 4], vec![0, 1, 2, 4, 3], vec![3, 0, 1, 2, 4], vec![4, 3, 0, 1, 2], vec![3, 4, 2, 1, 0], vec![2, 3, 0, 4, 1]];
                        if !quick {
                            orders.extend(vec![vec![0, 3, 1, 4, 2], vec![4, 0, 1, 2, 3], vec![2, 1, 0, 3, 4], vec![0, 4, 2, 3, 1], vec![1, 3, 4, 0, 2], vec![3, 2, 4, 0, 1]]);
                        }
                        for o in orders {
                            out.push(Program { nq: 3, body: o.iter().map(|i| stmts[*i].clone()).collect() });
                        }
                    }
                }
            }
        }
    }
    // ONE unification that binds several variables in a chain (x -> y -> z), only the first of
    // which carries a domain: the domain has to follow the chain to its end
    {
        let w = T::V(3);
        let unis: Vec<G> = vec![
            G::Eq(T::list(vec![x.clone(), y.clone()]), T::list(vec![y.clone(), z.clone()])),
            G::Eq(T::list(vec![y.clone(), x.clone()]), T::list(vec![z.clone(), y.clone()])),
            G::Eq(T::list(vec![z.clone(), y.clone()]), T::list(vec![y.clone(), x.clone()])),
            G::Eq(T::Cmp(Tag::Pair, vec![x.clone(), y.clone()]), T::Cmp(Tag::Pair, vec![y.clone(), z.clone()])),
            G::Eq(T::list(vec![x.clone(), y.clone(), T::I(1)]), T::list(vec![y.clone(), z.clone(), z.clone()])),
        ];
        let links: Vec<G> = vec![
            G::Fd(FdKind::Lt, vec![x.clone(), w.clone()]),
            G::Fd(FdKind::Lte, vec![w.clone(), z.clone()]),
            G::Fd(FdKind::Diseq, vec![y.clone(), w.clone()]),
            G::Fd(FdKind::Plus, vec![x.clone(), T::I(1), w.clone()]),
            G::DistinctFd(T::list(vec![x.clone(), w.clone()])),
        ];
        for d in [Dom::Range(0, 2), Dom::Sparse(vec![0, 1, 3])] {
            for u in &unis {
                for l in &links {
                    // the domain sits on x only (the constraint may name y or z: after the
                    // unification they are x)
                    let stmts = vec![G::InFd(vec![x.clone()], d.clone()), G::InFd(vec![w.clone()], Dom::Range(0, 3)), l.clone(), u.clone()];
                    for (pi, perm) in permutations(&stmts).into_iter().enumerate() {
                        if quick && pi % 2 == 1 {
                            continue;
                        }
                        // a constraint over y / z posted before they are unified with x has an
                        // operand without a domain at that moment: outside the fragment
                        let pos = |g: &G| perm.iter().position(|s| s == g).unwrap();
                        let names_other = matches!(l, G::Fd(FdKind::Lte, _) | G::Fd(FdKind::Diseq, _));
                        if names_other && pos(l) < pos(u) {
                            continue;
                        }
                        out.push(Program { nq: 4, body: perm });
                    }
                }
            }
        }
    }
    // a domain narrowed from a second source that is not a stored constraint: a second infd on
    // the same variable, or == between two variables whose domains have the same bounds but
    // different interiors (either orientation)
    {
        let holes: Vec<Dom> = vec![Dom::Sparse(vec![1, 3]), Dom::Sparse(vec![0, 1, 3]), Dom::Sparse(vec![-2, 2])];
        let wides: Vec<Dom> = vec![Dom::Range(1, 3), Dom::Range(0, 3), Dom::Range(-2, 2), Dom::Sparse(vec![0, 2, 3])];
        let extra: Vec<Option<G>> = vec![None, Some(G::Fd(FdKind::Lte, vec![x.clone(), z.clone()])), Some(G::Fd(FdKind::Diseq, vec![y.clone(), z.clone()]))];
        for h in &holes {
            for wd in &wides {
                for e in &extra {
                    // (a) two domains on x
                    let mut a = vec![G::InFd(vec![x.clone()], h.clone()), G::InFd(vec![x.clone()], wd.clone()), G::InFd(vec![y.clone(), z.clone()], Dom::Range(0, 2))];
                    // (b) x == y / y == x with different domains
                    let mut b1 = vec![G::InFd(vec![x.clone()], h.clone()), G::InFd(vec![y.clone()], wd.clone()), G::InFd(vec![z.clone()], Dom::Range(0, 2)), G::Eq(x.clone(), y.clone())];
                    let mut b2 = vec![G::InFd(vec![x.clone()], h.clone()), G::InFd(vec![y.clone()], wd.clone()), G::InFd(vec![z.clone()], Dom::Range(0, 2)), G::Eq(y.clone(), x.clone())];
                    if let Some(g) = e {
                        a.push(g.clone());
                        b1.push(g.clone());
                        b2.push(g.clone());
                    }
                    for stmts in [a, b1, b2] {
                        for (pi, perm) in permutations(&stmts).into_iter().enumerate() {
                            if stmts.len() >= 5 && pi % (if quick { 12 } else { 3 }) != 0 {
                                continue;
                            }
                            if quick && stmts.len() == 4 && pi % 2 == 1 {
                                continue;
                            }
                            out.push(Program { nq: 3, body: perm });
                        }
                    }
                }
            }
        }
    }
    // operands already bound when the constraint is posted (and the other way round)
    let binds: Vec<G> = vec![
        G::Eq(x.clone(), T::I(1)),
        G::Eq(y.clone(), T::I(1)),
        G::Eq(z.clone(), T::I(1)),
        G::Eq(z.clone(), T::I(2)),
        G::Eq(x.clone(), y.clone()),
    ];
    let prebound: Vec<G> = pool
        .iter()
        .take(10)
        .cloned()
        .chain(vec![
            G::DistinctFd(T::list(vec![x.clone(), y.clone()])),
            G::DistinctFd(T::list(vec![y.clone(), x.clone(), T::I(1)])),
            G::Fd(FdKind::Diseq, vec![x.clone(), y.clone()]),
            G::Fd(FdKind::Lt, vec![x.clone(), y.clone()]),
        ])
        .collect();
    for c in prebound.iter() {
        for i in 0..binds.len() {
            for j in (i + 1)..binds.len() {
                let dom = G::InFd(vec![x.clone(), y.clone(), z.clone()], Dom::Range(0, 2));
                let (b1, b2) = (binds[i].clone(), binds[j].clone());
                out.push(Program { nq: 3, body: vec![dom.clone(), b1.clone(), b2.clone(), c.clone()] });
                out.push(Program { nq: 3, body: vec![b1.clone(), b2.clone(), dom.clone(), c.clone()] });
                out.push(Program { nq: 3, body: vec![b1.clone(), b2.clone(), c.clone(), dom.clone()] });
                out.push(Program { nq: 3, body: vec![c.clone(), dom.clone(), b1.clone(), b2.clone()] });
                out.push(Program { nq: 3, body: vec![b1.clone(), c.clone(), b2.clone(), dom.clone()] });
            }
        }
    }
    // an FD constraint next to a TREE disequality (`!=`) over the same variables, in every
    // statement order, with and without a later binding: posting or re-running the one must
    // leave the other in the store
    {
        let dm = G::InFd(vec![x.clone(), y.clone(), z.clone()], Dom::Range(0, 2));
        let cons: Vec<G> = vec![
            G::Fd(FdKind::Lt, vec![x.clone(), y.clone()]),
            G::Fd(FdKind::Plus, vec![x.clone(), y.clone(), z.clone()]),
            G::Fd(FdKind::Diseq, vec![x.clone(), z.clone()]),
            G::DistinctFd(T::list(vec![x.clone(), y.clone(), z.clone()])),
        ];
        let neqs: Vec<G> = vec![
            G::Neq(z.clone(), T::I(1)),
            G::Neq(x.clone(), y.clone()),
            G::Neq(T::list(vec![x.clone(), z.clone()]), T::list(vec![T::I(0), T::I(2)])),
            G::Neq(T::list(vec![y.clone(), z.clone()]), T::list(vec![z.clone(), T::I(2)])),
        ];
        for (ci, c) in cons.iter().enumerate() {
            for (ni, n) in neqs.iter().enumerate() {
                if quick && (ci + ni) % 2 == 1 {
                    continue;
                }
                for perm in permutations(&[dm.clone(), c.clone(), n.clone()]) {
                    out.push(Program { nq: 3, body: perm.clone() });
                    let mut with_eq = perm.clone();
                    with_eq.push(G::Eq(y.clone(), T::I(1)));
                    out.push(Program { nq: 3, body: with_eq });
                }
            }
        }
    }
    // every operand ground before the constraint is posted, nothing left to label
    for (a, b) in [(1i64, 1i64), (1, 2), (2, 1)] {
        let grounded: Vec<G> = vec![
            G::DistinctFd(T::list(vec![x.clone(), y.clone()])),
            G::DistinctFd(T::list(vec![x.clone(), T::I(1), y.clone()])),
            G::Fd(FdKind::Diseq, vec![x.clone(), y.clone()]),
            G::Fd(FdKind::Lte, vec![x.clone(), y.clone()]),
            G::Fd(FdKind::Lt, vec![x.clone(), y.clone()]),
            G::Fd(FdKind::Plus, vec![x.clone(), y.clone(), T::I(3)]),
            G::Fd(FdKind::Minus, vec![x.clone(), y.clone(), T::I(1)]),
            G::Fd(FdKind::Times, vec![x.clone(), y.clone(), T::I(2)]),
        ];
        for c in grounded {
            let (e1, e2) = (G::Eq(x.clone(), T::I(a)), G::Eq(y.clone(), T::I(b)));
            out.push(Program { nq: 2, body: vec![e1.clone(), e2.clone(), c.clone()] });
            out.push(Program { nq: 2, body: vec![c.clone(), e1.clone(), e2.clone()] });
            out.push(Program { nq: 2, body: vec![e1.clone(), c.clone(), e2.clone()] });
        }
    }
    // the five-constraint program of DESIGN.md section 1 (no solution), a few statement orders
    {
        let w = T::V(3);
        let dom = G::InFd(vec![x.clone(), y.clone(), z.clone(), w.clone()], Dom::Range(0, 4));
        let cs = vec![
            G::Fd(FdKind::Plus, vec![x.clone(), y.clone(), z.clone()]),
            G::Fd(FdKind::Lte, vec![z.clone(), w.clone()]),
            G::Fd(FdKind::Minus, vec![w.clone(), x.clone(), y.clone()]),
            G::Fd(FdKind::Diseq, vec![x.clone(), y.clone()]),
            G::Fd(FdKind::Times, vec![x.clone(), y.clone(), w.clone()]),
        ];
        for rot in 0..cs.len() {
            let mut r = cs.clone();
            r.rotate_left(rot);
            let mut a = vec![dom.clone()];
            a.extend(r.iter().cloned());
            out.push(Program { nq: 4, body: a });
            let mut b = r.clone();
            b.push(dom.clone());
            out.push(Program { nq: 4, body: b });
        }
    }
    // three constraints, fixed domains, all orders of the constraints (domains first or last)
    if !quick {
        for i in 0..10 {
            for j in (i + 1)..10 {
                for k in (j + 1)..13 {
                    let cs = vec![pool[i].clone(), pool[j].clone(), pool[k].clone()];
                    for perm in permutations(&cs) {
                        let dom = G::InFd(vec![x.clone(), y.clone(), z.clone()], Dom::Range(0, 3));
                        let mut a = vec![dom.clone()];
                        a.extend(perm.iter().cloned());
                        out.push(Program { nq: 3, body: a });
                        let mut b = perm.clone();
                        b.push(dom);
                        out.push(Program { nq: 3, body: b });
                    }
                }
            }
        }
    }
    out
}

/// Tier T3: shapes of the answer — query variable bound to a list / improper list / compound /
/// nested compound of FD variables, hidden FD variables, FD under conde.
pub fn tier3(quick: bool) -> Vec<Program> {
    // q = V0 is the only query variable; a = V1, b = V2, c = V3 are hidden (fresh)
    let q = T::V(0);
    let a = T::V(1);
    let b = T::V(2);
    let c = T::V(3);
    let shapes: Vec<T> = vec![
        T::list(vec![a.clone(), b.clone()]),
        T::cons(a.clone(), b.clone()),
        T::list(vec![a.clone(), T::list(vec![b.clone()])]),
        T::Cmp(Tag::Pair, vec![a.clone(), b.clone()]),
        T::Cmp(Tag::Box1, vec![T::list(vec![a.clone(), b.clone()])]),
        T::Cmp(Tag::Pair, vec![T::Cmp(Tag::Box1, vec![a.clone()]), b.clone()]),
        T::Cmp(Tag::Tuple, vec![a.clone(), b.clone()]),
        T::Cmp(Tag::Named, vec![a.clone(), b.clone()]),
        T::list(vec![T::Cmp(Tag::Pair, vec![a.clone(), T::I(7)]), b.clone()]),
        a.clone(),
    ];
    let cons: Vec<Vec<G>> = vec![
        vec![],
        vec![G::Fd(FdKind::Lt, vec![a.clone(), b.clone()])],
        vec![G::Fd(FdKind::Plus, vec![a.clone(), b.clone(), c.clone()]), G::InFd(vec![c.clone()], Dom::Range(1, 2))],
        vec![G::Fd(FdKind::Diseq, vec![a.clone(), b.clone()])],
        vec![G::Fd(FdKind::Lte, vec![c.clone(), a.clone()]), G::InFd(vec![c.clone()], Dom::Sparse(vec![1, 3]))],
    ];
    let doms: Vec<Dom> = if quick { vec![Dom::Range(0, 1)] } else { vec![Dom::Range(0, 1), Dom::Sparse(vec![-1, 2]), Dom::Range(-1, 1)] };
    let mut out = vec![];
    for s in &shapes {
        for cs in &cons {
            for d in &doms {
                // fresh |a, b, c| { q == shape, a, b in d, constraints } in a few orders
                let eqs = G::Eq(q.clone(), s.clone());
                let dm = G::InFd(vec![a.clone(), b.clone()], d.clone());
                let mut orders: Vec<Vec<G>> = vec![];
                let mut v1 = vec![eqs.clone(), dm.clone()];
                v1.extend(cs.iter().cloned());
                orders.push(v1);
                let mut v2 = vec![dm.clone()];
                v2.extend(cs.iter().cloned());
                v2.push(eqs.clone());
                orders.push(v2);
                let mut v3: Vec<G> = cs.iter().cloned().collect();
                v3.push(eqs.clone());
                v3.push(dm.clone());
                orders.push(v3);
                for o in orders {
                    out.push(Program { nq: 1, body: vec![G::Fresh(vec![1, 2, 3], o)] });
                }
            }
        }
    }
    // several hidden FD variables whose labeling needs a JOINT search: the first value of one
    // is not refuted by propagation but leaves the others without a solution (pigeonhole over
    // distinctfd); whichever variable the domain store yields first, the answer exists
    {
        let d = T::V(4);
        let doms3 = G::InFd(vec![a.clone(), b.clone(), c.clone()], Dom::Range(1, 3));
        let dom4 = G::InFd(vec![d.clone()], Dom::Range(1, 4));
        let dist = G::DistinctFd(T::list(vec![a.clone(), b.clone(), c.clone(), d.clone()]));
        let dist2 = G::DistinctFd(T::list(vec![d.clone(), c.clone(), b.clone(), a.clone()]));
        for qeq in [G::Eq(q.clone(), T::I(10)), G::Eq(q.clone(), T::list(vec![a.clone()])), G::Eq(q.clone(), T::list(vec![d.clone()]))] {
            out.push(Program { nq: 1, body: vec![G::Fresh(vec![1, 2, 3, 4], vec![qeq.clone(), doms3.clone(), dom4.clone(), dist.clone()])] });
            out.push(Program { nq: 1, body: vec![G::Fresh(vec![1, 2, 3, 4], vec![dom4.clone(), doms3.clone(), dist2.clone(), qeq.clone()])] });
            out.push(Program { nq: 1, body: vec![G::Fresh(vec![1, 2, 3, 4], vec![dist.clone(), qeq.clone(), dom4.clone(), doms3.clone()])] });
        }
        // the same with two answers
        out.push(Program { nq: 1, body: vec![G::Fresh(vec![1, 2, 3, 4], vec![G::Conde(vec![vec![G::Eq(q.clone(), T::I(10))], vec![G::Eq(q.clone(), T::I(20))]]), doms3.clone(), dom4.clone(), dist.clone()])] });
        // the wide domain on the variable that is labelled FIRST (lowest variable id; also the
        // second and the third): its first value is consistent locally and wrong globally
        for wide in [&a, &b, &c] {
            let narrow: Vec<T> = [&a, &b, &c, &d].iter().filter(|v| **v != wide).map(|v| (*v).clone()).collect();
            let dn = G::InFd(narrow, Dom::Range(1, 3));
            let dw = G::InFd(vec![wide.clone()], Dom::Range(1, 4));
            for qeq in [G::Eq(q.clone(), T::I(10)), G::Eq(q.clone(), T::list(vec![d.clone()]))] {
                out.push(Program { nq: 1, body: vec![G::Fresh(vec![1, 2, 3, 4], vec![qeq.clone(), dn.clone(), dw.clone(), dist.clone()])] });
                out.push(Program { nq: 1, body: vec![G::Fresh(vec![1, 2, 3, 4], vec![dist2.clone(), dw.clone(), dn.clone(), qeq.clone()])] });
            }
        }
    }
    // hidden FD variables that are ALIASED (`a == b` binds one to the other and moves its domain):
    // a constraint that names the bound side, is not refuted by bounds propagation, and has no
    // (or few) integer solutions — the witness search over the hidden variables has to reach it
    // under either name, in every statement order
    {
        let dm = G::InFd(vec![a.clone(), b.clone()], Dom::Range(0, 3));
        let dc = G::InFd(vec![c.clone()], Dom::Range(0, 9));
        let three = T::I(3);
        let conss: Vec<(Vec<G>, G)> = vec![
            (vec![G::Fd(FdKind::Plus, vec![a.clone(), a.clone(), three.clone()])], G::Eq(q.clone(), T::I(10))),
            (vec![G::Fd(FdKind::Plus, vec![b.clone(), b.clone(), three.clone()])], G::Eq(q.clone(), T::I(10))),
            (vec![G::Fd(FdKind::Plus, vec![a.clone(), b.clone(), three.clone()])], G::Eq(q.clone(), T::I(10))),
            (vec![G::Fd(FdKind::Plus, vec![b.clone(), a.clone(), three.clone()])], G::Eq(q.clone(), T::I(10))),
            (vec![G::Fd(FdKind::Times, vec![a.clone(), a.clone(), c.clone()]), dc.clone()], G::Eq(q.clone(), c.clone())),
            (vec![G::Fd(FdKind::Times, vec![a.clone(), b.clone(), c.clone()]), dc.clone()], G::Eq(q.clone(), c.clone())),
            (vec![G::Fd(FdKind::Times, vec![b.clone(), b.clone(), c.clone()]), dc.clone()], G::Eq(q.clone(), c.clone())),
            (vec![G::Fd(FdKind::Minus, vec![c.clone(), a.clone(), b.clone()]), dc.clone()], G::Eq(q.clone(), c.clone())),
        ];
        for alias in [G::Eq(a.clone(), b.clone()), G::Eq(b.clone(), a.clone())] {
            for (cs, qeq) in &conss {
                let mut items: Vec<Vec<G>> = vec![vec![alias.clone()], vec![dm.clone()], cs.clone()];
                if quick {
                    items.rotate_left(out.len() % 3);
                    let o: Vec<G> = items.concat();
                    out.push(Program { nq: 1, body: vec![G::Fresh(vec![1, 2, 3], [vec![qeq.clone()], o.clone()].concat())] });
                    items.swap(0, 2);
                    let o2: Vec<G> = items.concat();
                    out.push(Program { nq: 1, body: vec![G::Fresh(vec![1, 2, 3], [o2, vec![qeq.clone()]].concat())] });
                } else {
                    for perm in permutations(&items) {
                        let o: Vec<G> = perm.concat();
                        out.push(Program { nq: 1, body: vec![G::Fresh(vec![1, 2, 3], [vec![qeq.clone()], o.clone()].concat())] });
                        out.push(Program { nq: 1, body: vec![G::Fresh(vec![1, 2, 3], [o, vec![qeq.clone()]].concat())] });
                    }
                }
            }
        }
    }
    // FD under conde
    for d in &doms {
        let dm = G::InFd(vec![a.clone(), b.clone()], d.clone());
        let eqs = G::Eq(q.clone(), T::list(vec![a.clone(), b.clone()]));
        for (c1, c2) in [
            (G::Fd(FdKind::Lt, vec![a.clone(), b.clone()]), G::Fd(FdKind::Lt, vec![b.clone(), a.clone()])),
            (G::Eq(a.clone(), b.clone()), G::Fd(FdKind::Diseq, vec![a.clone(), b.clone()])),
            (G::Fd(FdKind::Plus, vec![a.clone(), a.clone(), b.clone()]), G::Eq(a.clone(), T::I(0))),
        ] {
            out.push(Program { nq: 1, body: vec![G::Fresh(vec![1, 2, 3], vec![eqs.clone(), dm.clone(), G::Conde(vec![vec![c1.clone()], vec![c2.clone()]])])] });
            out.push(Program { nq: 1, body: vec![G::Fresh(vec![1, 2, 3], vec![G::Conde(vec![vec![c1.clone()], vec![c2.clone()]]), dm.clone(), eqs.clone()])] });
            out.push(Program { nq: 1, body: vec![G::Fresh(vec![1, 2, 3], vec![eqs.clone(), G::Conde(vec![vec![dm.clone(), c1.clone()], vec![c2.clone(), dm.clone()]])])] });
        }
    }
    out
}

/// Tier T4: CLP(Z) equations over variables that carry finite domains, alone and next to an FD
/// constraint, in every statement order: a value computed by plusz / timesz must respect the
/// domain of the variable it is given to, whichever of the two was posted first.
pub fn tier4(quick: bool) -> Vec<Program> {
    let x = T::V(0);
    let y = T::V(1);
    let z = T::V(2);
    let doms: Vec<Dom> = if quick { vec![Dom::Range(0, 3), Dom::Sparse(vec![0, 1, 3])] } else { vec![Dom::Range(0, 3), Dom::Range(-1, 2), Dom::Sparse(vec![0, 1, 3]), Dom::Sparse(vec![-2, 2])] };
    let eqns: Vec<G> = vec![
        G::PlusZ(x.clone(), y.clone(), z.clone()),
        G::TimesZ(x.clone(), y.clone(), z.clone()),
        G::PlusZ(x.clone(), T::I(1), z.clone()),
        G::TimesZ(x.clone(), T::I(2), z.clone()),
        G::PlusZ(x.clone(), x.clone(), z.clone()),
        G::PlusZ(z.clone(), y.clone(), x.clone()),
        G::TimesZ(z.clone(), z.clone(), x.clone()),
    ];
    let extras: Vec<Option<G>> = vec![
        None,
        Some(G::Fd(FdKind::Lt, vec![x.clone(), y.clone()])),
        Some(G::Fd(FdKind::Diseq, vec![x.clone(), z.clone()])),
        Some(G::DistinctFd(T::list(vec![x.clone(), y.clone(), z.clone()]))),
        Some(G::Eq(y.clone(), T::I(1))),
        Some(G::Fd(FdKind::Lte, vec![z.clone(), y.clone()])),
        Some(G::Fd(FdKind::Plus, vec![x.clone(), y.clone(), T::I(3)])),
    ];
    let mut out = vec![];
    for d in &doms {
        for d2 in &doms {
            for e in &eqns {
                for ex in &extras {
                    let mut stmts = vec![G::InFd(vec![x.clone(), y.clone()], d.clone()), G::InFd(vec![z.clone()], d2.clone()), e.clone()];
                    if let Some(g) = ex {
                        stmts.push(g.clone());
                    }
                    for (pi, perm) in permutations(&stmts).into_iter().enumerate() {
                        if quick && stmts.len() == 4 && pi % 3 != 0 {
                            continue;
                        }
                        out.push(Program { nq: 3, body: perm });
                    }
                }
            }
        }
    }
    out
}

/// Expected multiset of query tuples (canonical), or None if the program is outside the
/// well-formed fragment (an FD operand never given a domain).
pub fn expected(p: &Program) -> Option<Vec<Vec<T>>> {
    let mut next = crate::run::nvars_of(p.nq, &p.body) as u32;
    let q: Vec<T> = (0..p.nq).map(T::V).collect();
    let mut all = vec![];
    for path in paths(&p.body, &mut next) {
        let sols = fd_solutions(&q, &path)?;
        for s in sols {
            all.push(canon_tuple(&s));
        }
    }
    all.sort();
    Some(all)
}

pub struct FdOut {
    pub viols: Vec<Violation>,
    pub schedules: u64,
    pub max_points: usize,
    pub n_expected: usize,
    pub skipped: bool,
}

/// Runs one FD program under all schedules with <= d deviations and judges C16 and C17.
/// `which`: "C16" reports unsound answers, "C17" missing/duplicate ones, "both" everything.
pub fn check(p: &Program, family: &str, index: usize, d: usize, which: &str) -> FdOut {
    crate::ev::progress(family, index, &Value::Null);
    let nvars = crate::run::nvars_of(p.nq, &p.body);
    let exp = match expected(p) {
        Some(e) => e,
        None => return FdOut { viols: vec![], schedules: 0, max_points: 0, n_expected: 0, skipped: true },
    };
    let sig = p.to_string();
    let f = || {
        let out = run_query(nvars, p, 4000, 2_000_000);
        let tuples: Vec<Vec<T>> = out.answers.iter().map(|a| a.terms.clone()).collect();
        (tuples, out.end.clone())
    };
    let ex = sched::explore(&FD_SITES, d, 3000, &f);
    let mut viols = vec![];
    let mk = |kind: &str, detail: String, site: String, schedule: &Vec<usize>| Violation {
        kind: kind.into(),
        sig: sig.clone(),
        site,
        detail,
        family: family.into(),
        index,
        schedule: schedule.clone(),
        data: Value::Null,
    };
    if let Some(e) = &ex.error {
        viols.push(mk("machinery", e.clone(), String::new(), &vec![]));
    }
    let show = |v: &Vec<Vec<T>>| format!("[{}]", v.iter().map(|t| format!("({})", t.iter().map(|x| x.to_string()).collect::<Vec<_>>().join(", "))).collect::<Vec<_>>().join(", "));
    for (schedule, (tuples, end)) in &ex.outcomes {
        match end {
            End::Panic(m) => {
                viols.push(mk("panic", m.clone(), panic_site(m), schedule));
                continue;
            }
            End::Exhausted => {}
            other => {
                viols.push(mk("no-termination", format!("{:?}", other), String::new(), schedule));
                continue;
            }
        }
        let mut got: Vec<Vec<T>> = tuples.clone();
        got.sort();
        // C16: every answer is a solution
        if which != "C17" {
            let mut bad: Vec<Vec<T>> = got.iter().filter(|t| !exp.contains(t)).cloned().collect();
            bad.dedup();
            if !bad.is_empty() {
                viols.push(mk("unsound-answer", format!("schedule {:?}: answers {} are not solutions; solutions are {}", schedule, show(&bad), show(&exp)), String::new(), schedule));
            }
        }
        if which != "C16" {
            let mut missing: Vec<Vec<T>> = exp.iter().filter(|t| !got.contains(t)).cloned().collect();
            missing.dedup();
            if !missing.is_empty() {
                viols.push(mk("missing-solution", format!("schedule {:?}: solutions {} are not returned; answers are {}", schedule, show(&missing), show(&got)), String::new(), schedule));
            }
            let mut dups = vec![];
            let count = |v: &Vec<Vec<T>>, t: &Vec<T>| v.iter().filter(|x| *x == t).count();
            for t in got.iter() {
                if exp.contains(t) && count(&got, t) > count(&exp, t) && !dups.contains(t) {
                    dups.push(t.clone());
                }
            }
            if !dups.is_empty() {
                viols.push(mk("duplicate-answer", format!("schedule {:?}: answers {} are returned more often than they are solutions; answers are {}", schedule, show(&dups), show(&got)), String::new(), schedule));
            }
        }
    }
    FdOut { viols, schedules: ex.schedules, max_points: ex.max_points, n_expected: exp.len(), skipped: false }
}
