//! AST <-> library objects: terms, goals, queries.
use crate::ast::*;
use proto_vulcan::compound::CompoundObject;
use proto_vulcan::engine::Engine;
use proto_vulcan::goal::{AnyGoal, DFSGoal, Goal, GoalCast};
use proto_vulcan::lresult::LResult;
use proto_vulcan::lterm::{LTerm, LTermInner};
use proto_vulcan::lvalue::LValue;
use proto_vulcan::operator::closure::Closure;
use proto_vulcan::operator::conda::Conda;
use proto_vulcan::operator::conde::Conde;
use proto_vulcan::operator::condu::Condu;
use proto_vulcan::operator::conj::{Conj, DFSConj, InferredConj};
use proto_vulcan::operator::disj::{DFSDisj, Disj};
use proto_vulcan::operator::fresh::Fresh;
use proto_vulcan::operator::project::Project;
use proto_vulcan::operator::{ClosureOperatorParam, ForOperatorParam, OperatorParam};
use proto_vulcan::query::QueryResult;
use proto_vulcan::relation::diseq::DisequalityConstraint;
use proto_vulcan::state::constraint::store::ConstraintStore;
use proto_vulcan::state::{FiniteDomain, State};
use proto_vulcan::user::User;
use proto_vulcan::{Downcast, Upcast};
use std::collections::HashMap;
use std::rc::Rc;

pub mod cmp {
    use proto_vulcan::prelude::*;

    #[compound]
    pub struct Pair(LTerm, LTerm);

    #[compound]
    pub struct Pair2(LTerm, LTerm);

    #[compound]
    pub struct Box1(LTerm);

    #[compound]
    pub struct Named {
        a: LTerm,
        b: LTerm,
    }

    #[compound]
    pub struct Rec(LTerm, Rec);

    #[compound]
    pub struct Holder2(LTerm, Option<LTerm>);

    #[compound]
    pub struct Outer {
        tag: LTerm,
        leaf: Named,
    }

    pub fn named_from_lterm<U: User, E: Engine<U>>(inner: LTerm<U, E>) -> Named<U, E> {
        Named { inner }
    }

    #[compound]
    pub struct Holder {
        item: Option<LTerm>,
        tag: LTerm,
    }

    pub fn rec_from_lterm<U: User, E: Engine<U>>(inner: LTerm<U, E>) -> Rec<U, E> {
        Rec { inner }
    }
}

/// Variable table: AST variable index -> library variable.
pub struct Env<U: User, E: Engine<U>> {
    pub vars: Vec<LTerm<U, E>>,
    ids: HashMap<usize, u32>,
}

fn raw_id<U: User, E: Engine<U>>(t: &LTerm<U, E>) -> Option<usize> {
    match t.as_ref() {
        LTermInner::Var(id, _) => Some(id.raw()),
        _ => None,
    }
}

impl<U: User, E: Engine<U>> Env<U, E> {
    pub fn new(n: usize) -> Env<U, E> {
        let mut env = Env {
            vars: vec![],
            ids: HashMap::new(),
        };
        env.ensure(n);
        env
    }
    pub fn ensure(&mut self, n: usize) {
        while self.vars.len() < n {
            let i = self.vars.len();
            let name: &'static str = if i < VAR_NAMES.len() { VAR_NAMES[i] } else { "v" };
            let v = LTerm::var(name);
            self.ids.insert(raw_id(&v).unwrap(), i as u32);
            self.vars.push(v);
        }
    }
    pub fn var(&self, i: u32) -> LTerm<U, E> {
        self.vars[i as usize].clone()
    }
    pub fn index_of(&self, t: &LTerm<U, E>) -> Option<u32> {
        raw_id(t).and_then(|id| self.ids.get(&id).copied())
    }

    pub fn enc(&self, t: &T) -> LTerm<U, E> {
        match t {
            T::V(i) => self.var(*i),
            T::A(_) => panic!("cannot encode a reified variable"),
            T::W => LTerm::any(),
            T::I(n) => LTerm::from(*n as isize),
            T::B(b) => LTerm::from(*b),
            T::C(c) => LTerm::from(*c),
            T::S(s) => LTerm::from(s.as_str()),
            T::Nil => LTerm::empty_list(),
            T::Cons(h, tl) => LTerm::cons(self.enc(h), self.enc(tl)),
            T::Cmp(Tag::Holder, fs) => {
                let item: Option<LTerm<U, E>> = match &fs[0] {
                    T::Cmp(Tag::OptSome, x) => Some(self.enc(&x[0])),
                    T::Cmp(Tag::OptNone, _) => None,
                    other => panic!("harness error: the item of a Holder is OptSome(_) or OptNone, not {}", other),
                };
                Upcast::into_super(Downcast::into_sub(cmp::Holder_compound::_InnerHolder { item, tag: self.enc(&fs[1]) }))
            }
            T::Cmp(Tag::Holder2, fs) => {
                let item: Option<LTerm<U, E>> = match &fs[1] {
                    T::Cmp(Tag::OptSome, x) => Some(self.enc(&x[0])),
                    T::Cmp(Tag::OptNone, _) => None,
                    other => panic!("harness error: the second field of a Holder2 is OptSome(_) or OptNone, not {}", other),
                };
                Upcast::into_super(Downcast::into_sub(cmp::Holder2_compound::_InnerHolder2(self.enc(&fs[0]), item)))
            }
            T::Cmp(Tag::Outer, fs) => Upcast::into_super(Downcast::into_sub(cmp::Outer_compound::_InnerOuter {
                tag: self.enc(&fs[0]),
                leaf: cmp::named_from_lterm(self.enc(&fs[1])),
            })),
            T::Cmp(tag, fs) => {
                let f: Vec<LTerm<U, E>> = fs.iter().map(|x| self.enc(x)).collect();
                match tag {
                    Tag::Pair => Upcast::into_super(Downcast::into_sub(cmp::Pair_compound::_InnerPair(
                        f[0].clone(),
                        f[1].clone(),
                    ))),
                    Tag::Pair2 => Upcast::into_super(Downcast::into_sub(
                        cmp::Pair2_compound::_InnerPair2(f[0].clone(), f[1].clone()),
                    )),
                    Tag::Box1 => Upcast::into_super(Downcast::into_sub(cmp::Box1_compound::_InnerBox1(
                        f[0].clone(),
                    ))),
                    Tag::Named => Upcast::into_super(Downcast::into_sub(
                        cmp::Named_compound::_InnerNamed {
                            a: f[0].clone(),
                            b: f[1].clone(),
                        },
                    )),
                    Tag::Rec => Upcast::into_super(Downcast::into_sub(cmp::Rec_compound::_InnerRec(
                        f[0].clone(),
                        cmp::rec_from_lterm(f[1].clone()),
                    ))),
                    Tag::Tuple => Upcast::into_super(Downcast::into_sub((f[0].clone(), f[1].clone()))),
                    Tag::Some => Into::<LTerm<U, E>>::into(Some(f[0].clone())),
                    Tag::Holder | Tag::OptSome | Tag::OptNone | Tag::Holder2 | Tag::Outer => panic!("harness error: {} is only encodable inside a Holder", tag.name()),
                }
            }
        }
    }
}

/// Decoder: library term -> AST. Variables of the table decode to `T::V`, others to `T::A(k)`
/// numbered by first occurrence within this decoder's lifetime.
pub struct Dec<'a, U: User, E: Engine<U>> {
    pub env: Option<&'a Env<U, E>>,
    pub anys: HashMap<usize, u32>,
    /// raw ids of the `A(k)` in order, with the `is_any()` flag of each
    pub any_flags: Vec<bool>,
}

impl<'a, U: User, E: Engine<U>> Dec<'a, U, E> {
    pub fn new(env: Option<&'a Env<U, E>>) -> Self {
        Dec {
            env,
            anys: HashMap::new(),
            any_flags: vec![],
        }
    }

    pub fn dec(&mut self, t: &LTerm<U, E>) -> T {
        match t.as_ref() {
            LTermInner::Var(id, _) => {
                if let Some(env) = self.env {
                    if let Some(i) = env.index_of(t) {
                        return T::V(i);
                    }
                }
                let n = self.anys.len() as u32;
                let raw = id.raw();
                if !self.anys.contains_key(&raw) {
                    self.anys.insert(raw, n);
                    self.any_flags.push(t.is_any());
                }
                T::A(self.anys[&raw])
            }
            LTermInner::Val(LValue::Number(n)) => T::I(*n as i64),
            LTermInner::Val(LValue::Bool(b)) => T::B(*b),
            LTermInner::Val(LValue::Char(c)) => T::C(*c),
            LTermInner::Val(LValue::String(s)) => T::S(s.clone()),
            LTermInner::Empty => T::Nil,
            LTermInner::Cons(h, tl) => T::cons(self.dec(h), self.dec(tl)),
            LTermInner::Compound(obj) => self.dec_obj(obj.as_ref()),
            LTermInner::User(_) => T::S("<user>".into()),
            LTermInner::Projection(p) => T::Cmp(Tag::Box1, vec![T::S("<projection>".into()), self.dec(p)]),
        }
    }

    fn dec_obj(&mut self, obj: &dyn CompoundObject<U, E>) -> T {
        let name = obj.type_name();
        if name == "LTerm" {
            // Option<LTerm>::Some(x) is stored as the LTerm `x` itself acting as the object: by
            // the library's own conversion (`None` is `[]`, `Some(x)` is x's object) it denotes x.
            let inner = obj.as_term().expect("LTerm object without term");
            return self.dec(inner);
        }
        let mut fs = vec![];
        for child in obj.children() {
            match child.as_term() {
                Some(term) => fs.push(self.dec(term)),
                None => fs.push(self.dec_obj(child)),
            }
        }
        let tag = match name {
            "Pair" => Tag::Pair,
            "Pair2" => Tag::Pair2,
            "Box1" => Tag::Box1,
            "Named" => Tag::Named,
            "Rec" => Tag::Rec,
            "" => Tag::Tuple,
            "Holder" => Tag::Holder,
            "Holder2" => Tag::Holder2,
            "Outer" => Tag::Outer,
            // an Option FIELD of a compound struct (a top-level Some(x) is x's own object and
            // never shows this name)
            "Some" => Tag::OptSome,
            "None" => Tag::OptNone,
            other => return T::Cmp(Tag::Box1, vec![T::S(format!("<unknown compound {}>", other))]),
        };
        T::Cmp(tag, fs)
    }
}

pub fn dom(d: &Dom) -> FiniteDomain {
    match d {
        Dom::Range(a, b) => FiniteDomain::from((*a as isize)..=(*b as isize)),
        Dom::Sparse(v) => FiniteDomain::from(v.iter().map(|x| *x as isize).collect::<Vec<isize>>()),
    }
}

/// Harness-level probes (fngoal bodies) are registered here by index.
pub type ProbeFn<U, E> = Rc<dyn Fn(&Env<U, E>, State<U, E>) -> Option<State<U, E>>>;

pub struct Builder<U: User, E: Engine<U>> {
    pub env: Rc<Env<U, E>>,
    pub probes: Vec<ProbeFn<U, E>>,
    /// which of the library's conjunction constructors builds conjunctions (0: from_vec,
    /// 1: from_array, 2: from_conjunctions with one clause per goal); fixed per program from a
    /// hash of its text, so that all of them are exercised and a case always uses the same one
    pub conj_variant: u8,
}

/// The two goal typings. `Bfs` builds `Goal`, `Dfs` builds `DFSGoal`.
pub trait Kind<U: User, E: Engine<U>>: AnyGoal<U, E> {
    fn conj2_vec(v: Vec<Self>) -> Self;
    fn disj_vec(v: Vec<Self>) -> Self;
}

impl<U: User, E: Engine<U>> Kind<U, E> for Goal<U, E> {
    fn conj2_vec(v: Vec<Self>) -> Self {
        Conj::from_vec(v)
    }
    fn disj_vec(v: Vec<Self>) -> Self {
        Disj::from_vec(v)
    }
}

impl<U: User, E: Engine<U>> Kind<U, E> for DFSGoal<U, E> {
    fn conj2_vec(v: Vec<Self>) -> Self {
        DFSConj::from_vec(v)
    }
    fn disj_vec(v: Vec<Self>) -> Self {
        DFSDisj::from_vec(v)
    }
}

impl<U: User, E: Engine<U>> Builder<U, E> {
    pub fn new(nvars: usize) -> Self {
        Builder {
            env: Rc::new(Env::new(nvars)),
            probes: vec![],
conj_variant: 0,
        }
    }

    pub fn conj<K: Kind<U, E>>(&self, gs: &[G]) -> K {
        let v: Vec<K> = gs.iter().map(|g| self.goal::<K>(g)).collect();
        match self.conj_variant % 3 {
            0 => InferredConj::from_vec(v).cast_into(),
            1 => InferredConj::from_array(&v).cast_into(),
            _ => {
                // one clause per goal, as an operator body `op { a, b }` is handed over
                let clauses: Vec<&[K]> = v.iter().map(std::slice::from_ref).collect();
                InferredConj::from_conjunctions(&clauses).cast_into()
            }
        }
    }

    /// The same builder with the conjunction constructor chosen from the program text.
    pub fn for_program(&self, body: &[G]) -> Builder<U, E> {
        let text = format!("{:?}", body);
        let mut h: u32 = 2166136261;
        for b in text.bytes() {
            h = (h ^ b as u32).wrapping_mul(16777619);
        }
        Builder { env: Rc::clone(&self.env), probes: self.probes.clone(), conj_variant: (h % 3) as u8 }
    }

    fn arms<K: Kind<U, E>>(&self, arms: &[Vec<G>]) -> Vec<Vec<K>> {
        arms.iter()
            .map(|a| a.iter().map(|g| self.goal::<K>(g)).collect())
            .collect()
    }

    /// Builds only BFS goals (operators that exist only in BFS typing).
    pub fn bfs(&self, g: &G) -> Goal<U, E> {
        self.goal::<Goal<U, E>>(g)
    }

    pub fn goal<K: Kind<U, E>>(&self, g: &G) -> K {
        use proto_vulcan::relation as r;
        let e = &self.env;
        match g {
            G::Succeed => r::succeed().cast_into(),
            G::Fail => r::fail().cast_into(),
            G::Eq(a, b) => r::eq(e.enc(a), e.enc(b)).cast_into(),
            G::Neq(a, b) => r::diseq(e.enc(a), e.enc(b)).cast_into(),
            G::Conj(gs) => self.conj::<K>(gs),
            G::Conde(arms) => {
                let arms = self.arms::<K>(arms);
                let refs: Vec<&[K]> = arms.iter().map(|a| a.as_slice()).collect();
                Conde::from_conjunctions(&refs).cast_into()
            }
            G::Disj(gs) => K::disj_vec(gs.iter().map(|g| self.goal::<K>(g)).collect()),
            G::Fresh(vs, gs) => {
                // like the macro: every fresh clause creates its own variables when the goal is
                // constructed (so two clauses using the same name never share a variable)
                let mut b = Builder {
                    env: Rc::clone(&self.env),
                    probes: self.probes.clone(),
conj_variant: self.conj_variant,
                };
                let mut vars = vec![];
                for v in vs {
                    let name: &'static str = if (*v as usize) < VAR_NAMES.len() { VAR_NAMES[*v as usize] } else { "v" };
                    let nv = LTerm::var(name);
                    vars.push(nv.clone());
                    b = b.with_binding(*v, nv);
                }
                Fresh::new(vars, b.conj::<K>(gs)).cast_into()
            }
            G::Closure(body) => {
                let b = Builder {
                    env: Rc::clone(&self.env),
                    probes: self.probes.clone(),
conj_variant: self.conj_variant,
                };
                let body = (**body).clone();
                Closure::new(ClosureOperatorParam::new(Box::new(move || b.goal::<K>(&body)))).cast_into()
            }
            G::Dfs(gs) => {
                let inner: Vec<DFSGoal<U, E>> = gs.iter().map(|g| self.goal::<DFSGoal<U, E>>(g)).collect();
                let refs: Vec<&[DFSGoal<U, E>]> = vec![inner.as_slice()];
                proto_vulcan::operator::dfs::<U, E, K>(OperatorParam::new(&refs)).cast_into()
            }
            G::InFd(ts, d) => {
                let goals: Vec<K> = ts
                    .iter()
                    .map(|t| match d {
                        Dom::Range(a, b) => {
                            r::infdrange::<U, E, K>(e.enc(t), &((*a as isize)..=(*b as isize))).cast_into()
                        }
                        Dom::Sparse(v) => {
                            let v: Vec<isize> = v.iter().map(|x| *x as isize).collect();
                            r::infd::<U, E, K>(e.enc(t), &v).cast_into()
                        }
                    })
                    .collect();
                InferredConj::from_vec(goals).cast_into()
            }
            G::Fd(k, ts) => {
                let a: Vec<LTerm<U, E>> = ts.iter().map(|t| e.enc(t)).collect();
                match k {
                    FdKind::Lte => r::ltefd(a[0].clone(), a[1].clone()).cast_into(),
                    FdKind::Lt => r::ltfd(a[0].clone(), a[1].clone()).cast_into(),
                    FdKind::Diseq => r::diseqfd(a[0].clone(), a[1].clone()).cast_into(),
                    FdKind::Plus => r::plusfd(a[0].clone(), a[1].clone(), a[2].clone()).cast_into(),
                    FdKind::Minus => r::minusfd(a[0].clone(), a[1].clone(), a[2].clone()).cast_into(),
                    FdKind::Times => r::timesfd(a[0].clone(), a[1].clone(), a[2].clone()).cast_into(),
                }
            }
            G::DistinctFd(t) => r::distinctfd(e.enc(t)).cast_into(),
            G::PlusZ(a, b, c) => r::plusz(e.enc(a), e.enc(b), e.enc(c)).cast_into(),
            G::TimesZ(a, b, c) => r::timesz(e.enc(a), e.enc(b), e.enc(c)).cast_into(),
            G::Rel(rel, ts) => {
                let a: Vec<LTerm<U, E>> = ts.iter().map(|t| e.enc(t)).collect();
                match rel {
                    Rel::Member => r::member(a[0].clone(), a[1].clone()).cast_into(),
                    Rel::Member1 => r::member1(a[0].clone(), a[1].clone()).cast_into(),
                    Rel::Append => r::append(a[0].clone(), a[1].clone(), a[2].clone()).cast_into(),
                    Rel::Rember => r::rember(a[0].clone(), a[1].clone(), a[2].clone()).cast_into(),
                    Rel::Permute => r::permute(a[0].clone(), a[1].clone()).cast_into(),
                    Rel::Distinct => r::distinct(a[0].clone()).cast_into(),
                    Rel::ConsR => r::cons(a[0].clone(), a[1].clone(), a[2].clone()).cast_into(),
                    Rel::First => r::first(a[0].clone(), a[1].clone()).cast_into(),
                    Rel::Rest => r::rest(a[0].clone(), a[1].clone()).cast_into(),
                    Rel::Empty => r::empty(a[0].clone()).cast_into(),
                }
            }
            G::For(x, coll, body) | G::ForList(x, coll, body) => {
                // The loop variable is substituted by each element: the body closure receives the
                // element and the harness rebuilds the body with `x` bound to it.
                let coll_terms: Vec<LTerm<U, E>> = coll.iter().map(|t| e.enc(t)).collect();
                let b = Builder {
                    env: Rc::clone(&self.env),
                    probes: self.probes.clone(),
conj_variant: self.conj_variant,
                };
                let body = body.clone();
                let x = *x;
                let gen: Box<dyn Fn(LTerm<U, E>) -> K> = Box::new(move |elem: LTerm<U, E>| {
                    let b2 = b.with_binding(x, elem);
                    b2.conj::<K>(&body)
                });
                if matches!(g, G::For(_, _, _)) {
                    proto_vulcan::operator::everyg(ForOperatorParam::new(coll_terms, gen)).cast_into()
                } else {
                    let list: LTerm<U, E> = LTerm::from_vec(coll_terms);
                    proto_vulcan::operator::everyg(ForOperatorParam::new(list, gen)).cast_into()
                }
            }
            G::Project(vs, gs) => {
                // Mirrors the macro expansion: the names are rebound to Projection terms.
                let mut b = Builder {
                    env: Rc::clone(&self.env),
                    probes: self.probes.clone(),
conj_variant: self.conj_variant,
                };
                let mut projected = vec![];
                for v in vs {
                    let p = LTerm::projection(e.var(*v));
                    projected.push(p.clone());
                    b = b.with_binding(*v, p);
                }
                let body: K = b.conj::<K>(gs);
                Project::new(projected, body).cast_into()
            }
            G::Match(kind, t, arms) => {
                // mirrors the macro: per arm alternative, the matched term is evaluated in the
                // outer scope, then the pattern's names become new variables local to the arm
                let term = e.enc(t);
                let mut built: Vec<Vec<K>> = vec![];
                for (pats, body) in arms {
                    for pat in pats {
                        let mut pv = vec![];
                        pat.vars(&mut pv);
                        let mut b = Builder {
                            env: Rc::clone(&self.env),
                            probes: self.probes.clone(),
conj_variant: self.conj_variant,
                        };
                        for v in pv {
                            if let T::V(i) = v {
                                let name: &'static str = if (i as usize) < VAR_NAMES.len() { VAR_NAMES[i as usize] } else { "v" };
                                b = b.with_binding(i, LTerm::var(name));
                            }
                        }
                        let mut goals: Vec<K> = vec![proto_vulcan::relation::eq(term.clone(), b.env.enc(pat)).cast_into()];
                        for g in body {
                            goals.push(b.goal::<K>(g));
                        }
                        built.push(goals);
                    }
                }
                let refs: Vec<&[K]> = built.iter().map(|a| a.as_slice()).collect();
                match kind {
                    MatchKind::Match | MatchKind::Matche => Conde::from_conjunctions(&refs).cast_into(),
                    MatchKind::Matcha | MatchKind::Matchu => {
                        // BFS-only operators
                        let any: Box<dyn std::any::Any> = Box::new(built);
                        let built: Vec<Vec<Goal<U, E>>> = match any.downcast::<Vec<Vec<Goal<U, E>>>>() {
                            Ok(b) => *b,
                            Err(_) => panic!("harness error: matcha/matchu in DFS typing"),
                        };
                        let refs: Vec<&[Goal<U, E>]> = built.iter().map(|a| a.as_slice()).collect();
                        let g = if *kind == MatchKind::Matcha { Conda::from_conjunctions(&refs) } else { Condu::from_conjunctions(&refs) };
                        downcast_goal::<U, E, K>(g)
                    }
                }
            }
            G::Call(name, args) => {
                let a: Vec<LTerm<U, E>> = args.iter().map(|t| e.enc(t)).collect();
                crate::userrel::call::<U, E, K>(name, a)
            }
            G::Probe(k) => {
                let f = Rc::clone(&self.probes[*k as usize]);
                let env = Rc::clone(&self.env);
                proto_vulcan::operator::fngoal::FnGoal::new::<K>(Box::new(move |_solver, state| {
                    match f(&env, state) {
                        Some(state) => proto_vulcan::stream::Stream::unit(Box::new(state)),
                        None => proto_vulcan::stream::Stream::empty(),
                    }
                }))
                .cast_into()
            }
            // BFS-only operators: building them in DFS typing is a harness error.
            G::Conda(_) | G::Condu(_) | G::Onceo(_) | G::Anyo(_) => {
                let bfs: Goal<U, E> = self.bfs_only(g);
                downcast_goal::<U, E, K>(bfs)
            }
        }
    }

    fn bfs_only(&self, g: &G) -> Goal<U, E> {
        match g {
            G::Conda(arms) => {
                let arms = self.arms::<Goal<U, E>>(arms);
                let refs: Vec<&[Goal<U, E>]> = arms.iter().map(|a| a.as_slice()).collect();
                Conda::from_conjunctions(&refs)
            }
            G::Condu(arms) => {
                let arms = self.arms::<Goal<U, E>>(arms);
                let refs: Vec<&[Goal<U, E>]> = arms.iter().map(|a| a.as_slice()).collect();
                Condu::from_conjunctions(&refs)
            }
            G::Onceo(gs) => {
                let inner: Vec<Goal<U, E>> = gs.iter().map(|g| self.bfs(g)).collect();
                let refs: Vec<&[Goal<U, E>]> = vec![inner.as_slice()];
                proto_vulcan::operator::onceo(OperatorParam::new(&refs))
            }
            G::Anyo(gs) => {
                let inner: Vec<Goal<U, E>> = gs.iter().map(|g| self.bfs(g)).collect();
                let refs: Vec<&[Goal<U, E>]> = vec![inner.as_slice()];
                proto_vulcan::operator::anyo(OperatorParam::new(&refs))
            }
            _ => unreachable!(),
        }
    }

    /// A builder in which variable index `x` denotes `term` instead of its table variable.
    pub fn with_binding(&self, x: u32, term: LTerm<U, E>) -> Builder<U, E> {
        let mut env = Env {
            vars: self.env.vars.clone(),
            ids: HashMap::new(),
        };
        env.vars[x as usize] = term;
        for (i, v) in env.vars.iter().enumerate() {
            if let Some(id) = raw_id(v) {
                env.ids.entry(id).or_insert(i as u32);
            }
        }
        Builder {
            env: Rc::new(env),
            probes: self.probes.clone(),
conj_variant: self.conj_variant,
        }
    }
}

fn downcast_goal<U: User, E: Engine<U>, K: Kind<U, E>>(g: Goal<U, E>) -> K {
    // Only valid when K = Goal. A BFS-only operator in a DFS context is a type error in the
    // library too, so the generators never produce it.
    let any: Box<dyn std::any::Any> = Box::new(g);
    match any.downcast::<K>() {
        Ok(k) => *k,
        Err(_) => panic!("harness error: BFS-only operator in DFS typing"),
    }
}

/// Query result row as delivered by the public iterator.
pub struct Row<U: User, E: Engine<U>>(pub Vec<LResult<U, E>>);

impl<U: User, E: Engine<U>> QueryResult<U, E> for Row<U, E> {
    fn from_vec(v: Vec<LResult<U, E>>) -> Self {
        Row(v)
    }
}

/// One observed answer in plain data.
#[derive(Clone, PartialEq, Eq, Hash, PartialOrd, Ord, Debug)]
pub struct Ans {
    /// one reified term per query variable, reified variables numbered by first occurrence
    pub terms: Vec<T>,
    /// the reported disequality constraints: each is a list of (lhs, rhs) bindings, sorted
    pub cons: Vec<Vec<(T, T)>>,
    /// for each query variable: the constraints `LResult::constraints()` returns (same encoding)
    pub per_var: Vec<Vec<Vec<(T, T)>>>,
    /// `is_any()` of each reified variable A(k)
    pub any_flags: Vec<bool>,
    /// number of non-disequality constraints reported
    pub other_constraints: usize,
    /// ordered pairs (i, j) of query variables for which `row[i].is_any_except(&row[j])` holds
    pub any_except: Vec<(usize, usize)>,
}

impl std::fmt::Display for Ans {
    fn fmt(&self, f: &mut std::fmt::Formatter) -> std::fmt::Result {
        write!(f, "(")?;
        for (i, t) in self.terms.iter().enumerate() {
            if i > 0 {
                write!(f, ", ")?;
            }
            write!(f, "{}", t)?;
        }
        write!(f, ")")?;
        if !self.cons.is_empty() {
            write!(f, " where")?;
            for c in &self.cons {
                write!(f, " {{")?;
                for (i, (a, b)) in c.iter().enumerate() {
                    if i > 0 {
                        write!(f, " |")?;
                    }
                    write!(f, " {} != {}", a, b)?;
                }
                write!(f, " }}")?;
            }
        }
        Ok(())
    }
}

fn dec_cstore<U: User, E: Engine<U>>(
    dec: &mut Dec<U, E>,
    cs: &mut dyn Iterator<Item = &Rc<dyn proto_vulcan::state::Constraint<U, E>>>,
    other: &mut usize,
) -> Vec<Vec<(T, T)>> {
    let mut out = vec![];
    for c in cs {
        if let Some(tree) = c.downcast_ref::<DisequalityConstraint<U, E>>() {
            let mut entries: Vec<(T, T)> = std::ops::Deref::deref(tree.smap_ref())
                .iter()
                .map(|(k, v)| (dec.dec(k), dec.dec(v)))
                .collect();
            entries.sort();
            out.push(entries);
        } else {
            *other += 1;
        }
    }
    out.sort();
    out
}

pub fn decode_row<U: User, E: Engine<U>>(row: &Row<U, E>) -> Ans {
    let mut dec: Dec<U, E> = Dec::new(None);
    let terms: Vec<T> = row.0.iter().map(|r| dec.dec(&r.0)).collect();
    let mut other = 0;
    let cons = match row.0.first() {
        Some(first) => {
            let store: &ConstraintStore<U, E> = first.1.as_ref();
            dec_cstore(&mut dec, &mut raw_iter(store), &mut other)
        }
        None => vec![],
    };
    let mut per_var = vec![];
    for r in row.0.iter() {
        let mut o = 0;
        per_var.push(dec_cstore(&mut dec, &mut r.constraints(), &mut o));
    }
    let mut any_except = vec![];
    for (i, ri) in row.0.iter().enumerate() {
        for (j, rj) in row.0.iter().enumerate() {
            if i != j && ri.is_any_except(&rj.0) {
                any_except.push((i, j));
            }
        }
    }
    Ans {
        any_except,
        terms,
        cons,
        per_var,
        any_flags: dec.any_flags.clone(),
        other_constraints: other,
    }
}

/// Iterates a constraint store for *observation*: the chooser must not see this iteration,
/// so the scope is set to a name no explorer branches on.
pub fn raw_iter<'a, U: User, E: Engine<U>>(
    store: &'a ConstraintStore<U, E>,
) -> impl Iterator<Item = &'a Rc<dyn proto_vulcan::state::Constraint<U, E>>> + 'a {
    let _s = proto_vulcan::verif::scope("observe");
    store.iter().collect::<Vec<_>>().into_iter()
}

/// Builds the same goal the `proto_vulcan_query!` macro builds around a body.
pub fn query_goal<U: User, E: Engine<U>>(b: &Builder<U, E>, nq: u32, body: &[G]) -> (Vec<LTerm<U, E>>, Goal<U, E>) {
    let qvars: Vec<LTerm<U, E>> = (0..nq).map(|i| b.env.var(i)).collect();
    let q = LTerm::var("__query__");
    let b = &b.for_program(body);
    let goals: Vec<Goal<U, E>> = body.iter().map(|g| b.bfs(g)).collect();
    // the top-level body of a query is a `Conj` (not an `InferredConj`), in the same rotation
    let body_goal: Goal<U, E> = match b.conj_variant % 3 {
        0 => Conj::from_vec(goals),
        1 => Conj::from_array(&goals),
        _ => {
            let clauses: Vec<&[Goal<U, E>]> = goals.iter().map(std::slice::from_ref).collect();
            Conj::from_conjunctions(&clauses)
        }
    };
    let inner: Vec<Goal<U, E>> = vec![
        proto_vulcan::relation::eq(q.clone(), LTerm::from_vec(qvars.clone())).cast_into(),
        proto_vulcan::query::reified(body_goal, proto_vulcan::state::reify(q.clone())),
    ];
    let goal: Goal<U, E> = Fresh::new(vec![q], InferredConj::from_vec(inner).cast_into()).cast_into();
    (qvars, goal)
}

/// Wraps an already built goal the way `proto_vulcan_query!` does (fresh __query__, unify it with
/// the list of query variables, the body, reification).
pub fn wrap_query<U: User, E: Engine<U>>(qvars: Vec<LTerm<U, E>>, body: Goal<U, E>) -> (Vec<LTerm<U, E>>, Goal<U, E>) {
    let q = LTerm::var("__query__");
    let inner: Vec<Goal<U, E>> = vec![
        proto_vulcan::relation::eq(q.clone(), LTerm::from_vec(qvars.clone())).cast_into(),
        proto_vulcan::query::reified(body, proto_vulcan::state::reify(q.clone())),
    ];
    let goal: Goal<U, E> = Fresh::new(vec![q], InferredConj::from_vec(inner).cast_into()).cast_into();
    (qvars, goal)
}
