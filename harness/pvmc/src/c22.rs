//! C22: user extension hooks observe a consistent constraint lifecycle.
//! E3 x E2 with an instrumented User type and an fngoal probe before/after every statement.
use crate::ast::*;
use crate::conv::*;
use crate::ev::{Ctx, Violation};
use crate::pool::par_map;
use crate::run::{guarded, panic_site, End};
use crate::sched;
use proto_vulcan::engine::Engine;
use proto_vulcan::goal::Goal;
use proto_vulcan::lterm::LTerm;
use proto_vulcan::solver::Solver;
use proto_vulcan::state::constraint::Constraint;
use proto_vulcan::state::{unify_rec, SMap, SResult, State};
use proto_vulcan::stream::StreamEngine;
use proto_vulcan::user::User;
use proto_vulcan::verif;
use serde_json::{json, Value};
use std::rc::Rc;

type Fp = Vec<i128>;

#[derive(Clone, Debug, Default)]
pub struct CountingUser {
    pub with: u32,
    pub take: u32,
    pub ext_log: Vec<Vec<(Fp, Fp)>>,
    /// expected extension of the upcoming `==` statement (set by the probe before it)
    pub expected: Option<Vec<(Fp, Fp)>>,
    pub trail: Vec<u16>,
    pub errors: Vec<String>,
}

fn fp_ext<U: User, E: Engine<U>>(ext: &SMap<U, E>) -> Vec<(Fp, Fp)> {
    let mut v: Vec<(Fp, Fp)> = std::ops::Deref::deref(ext).iter().map(|(k, v)| (verif::term_key(k), verif::term_key(v))).collect();
    v.sort();
    v
}

impl User for CountingUser {
    /// opaque user terms; the `unify` hook is left at its default, as a user type that only
    /// counts constraints would
    type UserTerm = u8;
    type UserContext = ();

    fn process_extension<E: Engine<Self>>(mut state: State<Self, E>, extension: &SMap<Self, E>) -> SResult<Self, E> {
        let e = fp_ext(extension);
        state.user_state.ext_log.push(e);
        Ok(state)
    }

    fn with_constraint<E: Engine<Self>>(state: &mut State<Self, E>, _c: &Rc<dyn Constraint<Self, E>>) {
        state.user_state.with += 1;
    }

    fn take_constraint<E: Engine<Self>>(state: &mut State<Self, E>, _c: &Rc<dyn Constraint<Self, E>>) {
        state.user_state.take += 1;
    }
}

pub type CU = CountingUser;
pub type CE = StreamEngine<CountingUser>;

fn store_size(st: &State<CU, CE>) -> usize {
    raw_iter(st.cstore_ref()).count()
}

/// Interleaves probes: [B0, s0, A0, B1, s1, A1, ..]. Statement ids in DFS order.
fn instrument(gs: &[G], next_id: &mut u16, stmts: &mut Vec<G>) -> Vec<G> {
    let mut out = vec![];
    for g in gs {
        match g {
            G::Conde(arms) => {
                let arms2: Vec<Vec<G>> = arms.iter().map(|a| instrument(a, next_id, stmts)).collect();
                out.push(G::Conde(arms2));
            }
            G::Fresh(vs, body) => out.push(G::Fresh(vs.clone(), instrument(body, next_id, stmts))),
            other => {
                let id = *next_id;
                *next_id += 1;
                stmts.push(other.clone());
                out.push(G::Probe(2 * id as u32));
                out.push(other.clone());
                out.push(G::Probe(2 * id as u32 + 1));
            }
        }
    }
    out
}

/// Is `trail` the statement-id sequence of one root-to-leaf path of the (uninstrumented) body?
fn valid_trail(gs: &[G], next_id: &mut u16, trail: &[u16], pos: usize) -> Vec<usize> {
    // returns possible positions after consuming this list
    let mut cur = vec![pos];
    for g in gs {
        match g {
            G::Conde(arms) => {
                let mut next = vec![];
                for a in arms {
                    for c in &cur {
                        // every arm numbers its statements; ids advance across arms
                        let mut id = *next_id;
                        let r = valid_trail(a, &mut id, trail, *c);
                        for x in r {
                            if !next.contains(&x) {
                                next.push(x);
                            }
                        }
                    }
                    let mut id = *next_id;
                    let _ = valid_trail(a, &mut id, &[], 0);
                    *next_id = id;
                }
                cur = next;
            }
            G::Fresh(_, body) => {
                let mut next = vec![];
                let start = *next_id;
                let mut end = start;
                for c in &cur {
                    let mut id = start;
                    for x in valid_trail(body, &mut id, trail, *c) {
                        if !next.contains(&x) {
                            next.push(x);
                        }
                    }
                    end = id;
                }
                if cur.is_empty() {
                    let mut id = start;
                    let _ = valid_trail(body, &mut id, &[], 0);
                    end = id;
                }
                *next_id = end;
                cur = next;
            }
            _ => {
                let id = *next_id;
                *next_id += 1;
                cur = cur.into_iter().filter(|c| trail.get(*c) == Some(&id)).map(|c| c + 1).collect();
            }
        }
    }
    cur
}

fn programs(level: u8) -> Vec<Program> {
    let quick = level == 0;
    let x = T::V(0);
    let y = T::V(1);
    let z = T::V(2);
    let stmts: Vec<G> = vec![
        G::Eq(x.clone(), T::I(5)),
        G::Eq(x.clone(), y.clone()),
        G::Eq(T::list(vec![x.clone(), y.clone()]), T::list(vec![T::I(5), z.clone()])),
        G::Eq(z.clone(), T::list(vec![x.clone()])),
        G::Eq(x.clone(), x.clone()),
        G::Neq(x.clone(), T::I(5)),
        G::Neq(x.clone(), y.clone()),
        G::Neq(T::list(vec![x.clone(), y.clone()]), T::list(vec![T::I(5), T::I(6)])),
        G::Neq(T::list(vec![x.clone(), x.clone()]), T::list(vec![y.clone(), T::I(5)])),
        G::Neq(y.clone(), T::I(6)),
    ];
    let mut stmts = stmts;
    if !quick {
        // a wider alphabet for the thorough tier: a disequality whose unifier chains a variable
        // through two pairs, bindings to and disequalities against partial lists
        stmts.extend(vec![
            G::Neq(T::list(vec![x.clone(), y.clone()]), T::list(vec![y.clone(), T::I(5)])),
            G::Neq(z.clone(), T::list(vec![x.clone()])),
            G::Neq(z.clone(), T::list(vec![y.clone()])),
            G::Eq(y.clone(), T::list(vec![z.clone()])),
            G::Eq(T::cons(x.clone(), z.clone()), T::list(vec![T::I(5), y.clone()])),
        ]);
    }
    let fd_stmts: Vec<G> = vec![
        G::InFd(vec![x.clone(), y.clone()], Dom::Range(0, 2)),
        G::Fd(FdKind::Lt, vec![x.clone(), y.clone()]),
        G::Fd(FdKind::Plus, vec![x.clone(), x.clone(), y.clone()]),
        G::Fd(FdKind::Diseq, vec![x.clone(), y.clone()]),
        G::Eq(x.clone(), T::I(1)),
        G::Eq(x.clone(), y.clone()),
        G::DistinctFd(T::list(vec![x.clone(), y.clone()])),
    ];
    let mut out = vec![];
    let n = stmts.len();
    // all sequences of 3 tree statements (ordered)
    for a in 0..n {
        for b in 0..n {
            if a == b {
                continue;
            }
            out.push(Program { nq: 3, body: vec![stmts[a].clone(), stmts[b].clone()] });
            for c in 0..n {
                if c == a || c == b {
                    continue;
                }
                if false && quick && (a * 7 + b * 3 + c) % 5 != 0 {
                    continue;
                }
                out.push(Program { nq: 3, body: vec![stmts[a].clone(), stmts[b].clone(), stmts[c].clone()] });
            }
        }
    }
    // thorough: all ordered sequences of 4 statements of the first ten
    if !quick {
        let k = 10.min(n);
        for a in 0..k {
            for b in 0..k {
                for c in 0..k {
                    for d in 0..k {
                        if a == b || a == c || a == d || b == c || b == d || c == d {
                            continue;
                        }
                        out.push(Program { nq: 3, body: vec![stmts[a].clone(), stmts[b].clone(), stmts[c].clone(), stmts[d].clone()] });
                    }
                }
            }
        }
    }
    // deepest tier: 4-statement sequences over the whole alphabet, 5-statement sequences of
    // the first eight
    if level >= 2 {
        for a in 0..n {
            for b in 0..n {
                for c in 0..n {
                    for d in 0..n {
                        if a == b || a == c || a == d || b == c || b == d || c == d || (a < 10 && b < 10 && c < 10 && d < 10) {
                            continue;
                        }
                        out.push(Program { nq: 3, body: vec![stmts[a].clone(), stmts[b].clone(), stmts[c].clone(), stmts[d].clone()] });
                    }
                }
            }
        }
        let k = 8;
        let idx: Vec<usize> = (0..k).collect();
        for perm5 in crate::e4::product(&idx, 5) {
            let mut sorted = perm5.clone();
            sorted.sort();
            sorted.dedup();
            if sorted.len() != 5 {
                continue;
            }
            out.push(Program { nq: 3, body: perm5.iter().map(|i| stmts[*i].clone()).collect() });
        }
    }
    // with a conde of two arms
    for a in 0..n {
        for b in 0..n {
            for c in 0..n {
                if a == b || b == c || a == c {
                    continue;
                }
                if (a + b * 2 + c * 5) % (if quick { 3 } else { 1 }) != 0 {
                    continue;
                }
                out.push(Program { nq: 3, body: vec![stmts[a].clone(), G::Conde(vec![vec![stmts[b].clone()], vec![stmts[c].clone(), stmts[(c + 1) % n].clone()]])] });
                out.push(Program { nq: 3, body: vec![G::Conde(vec![vec![stmts[b].clone(), stmts[a].clone()], vec![stmts[c].clone()]]), stmts[(a + 3) % n].clone()] });
            }
        }
    }
    // FD programs: domain statement placed first or last, two or three others
    let m = fd_stmts.len();
    for a in 1..m {
        for b in 1..m {
            if a == b {
                continue;
            }
            out.push(Program { nq: 2, body: vec![fd_stmts[0].clone(), fd_stmts[a].clone(), fd_stmts[b].clone()] });
            out.push(Program { nq: 2, body: vec![fd_stmts[a].clone(), fd_stmts[b].clone(), fd_stmts[0].clone()] });
            out.push(Program { nq: 2, body: vec![fd_stmts[a].clone(), fd_stmts[0].clone(), G::Conde(vec![vec![fd_stmts[b].clone()], vec![G::Neq(x.clone(), T::I(0))]])] });
        }
    }
    out
}

struct Obs {
    finals: Vec<(u32, u32, usize, Vec<u16>, Vec<String>)>,
    end: End,
}

fn run_instrumented(p: &Program) -> Obs {
    let nvars = crate::run::nvars_of(p.nq, &p.body);
    let mut stmts = vec![];
    let mut id = 0u16;
    let body = instrument(&p.body, &mut id, &mut stmts);
    let mut finals = vec![];
    verif::set_budget(2_000_000);
    let r = guarded(|| {
        let mut b: Builder<CU, CE> = Builder::new(nvars);
        // probes: even index = before statement id, odd = after
        let mut probes: Vec<ProbeFn<CU, CE>> = vec![];
        for (sid, s) in stmts.iter().enumerate() {
            let s_before = s.clone();
            probes.push(Rc::new(move |env: &Env<CU, CE>, mut st: State<CU, CE>| {
                // before: for an `==` statement compute the extension unify_rec would add
                st.user_state.expected = None;
                if let G::Eq(u, v) = &s_before {
                    let (lu, lv): (LTerm<CU, CE>, LTerm<CU, CE>) = (env.enc(u), env.enc(v));
                    let mut ext = SMap::new();
                    let probe_state = st.clone();
                    if unify_rec(probe_state, &mut ext, &lu, &lv).is_ok() {
                        st.user_state.expected = Some(fp_ext(&ext));
                    }
                }
                let sz = store_size(&st);
                if (st.user_state.with - st.user_state.take) as usize != sz {
                    let m = format!("before statement {}: with_constraint {} - take_constraint {} != {} stored constraints", sid, st.user_state.with, st.user_state.take, sz);
                    st.user_state.errors.push(m);
                }
                // remember how many extensions were logged so far (in the trail as a marker)
                st.user_state.trail.push(sid as u16);
                Some(st)
            }));
            let s_after = s.clone();
            probes.push(Rc::new(move |_env: &Env<CU, CE>, mut st: State<CU, CE>| {
                let sz = store_size(&st);
                if (st.user_state.with as i64 - st.user_state.take as i64) != sz as i64 {
                    let m = format!("after statement {} `{}`: with_constraint {} - take_constraint {} != {} stored constraints", sid, s_after, st.user_state.with, st.user_state.take, sz);
                    st.user_state.errors.push(m);
                }
                if let G::Eq(_, _) = &s_after {
                    match (&st.user_state.expected, st.user_state.ext_log.last()) {
                        (Some(exp), Some(got)) => {
                            if exp != got {
                                let m = format!("after `{}`: process_extension saw {} bindings, the unification added {}", s_after, got.len(), exp.len());
                                st.user_state.errors.push(m);
                            }
                        }
                        (Some(_), None) => st.user_state.errors.push(format!("after `{}`: process_extension was not called", s_after)),
                        (None, _) => st.user_state.errors.push(format!("after `{}`: the statement succeeded although unification fails", s_after)),
                    }
                }
                Some(st)
            }));
        }
        b.probes = probes;
        let (_qvars, goal): (Vec<LTerm<CU, CE>>, Goal<CU, CE>) = query_goal(&b, p.nq, &body);
        let mut solver: Solver<CU, CE> = Solver::new((), false);
        let mut stream = solver.start(&goal, State::new(CountingUser::default()));
        let mut n = 0;
        while let Some(st) = solver.next(&mut stream) {
            let u = &st.user_state;
            finals.push((u.with, u.take, store_size(&st), u.trail.clone(), u.errors.clone()));
            n += 1;
            if n > 500 {
                break;
            }
        }
        End::Exhausted
    });
    verif::set_budget(u64::MAX);
    let end = match r {
        Ok(e) => e,
        Err(e) => e,
    };
    Obs { finals, end }
}

const SITES: [&str; 4] = ["run_constraints", "with_cstore", "normalize", "process_extension_fd"];

fn check(p: &Program, index: usize, d: usize) -> (Vec<Violation>, u64, bool) {
    crate::ev::progress("c22", index, &Value::Null);
    let sig = p.to_string();
    let mut viols = vec![];
    let f = || {
        let o = run_instrumented(p);
        (o.finals, o.end)
    };
    let ex = sched::explore(&SITES, d, 2000, &f);
    let mut had_constraints = false;
    for (schedule, (finals, end)) in &ex.outcomes {
        let mk = |kind: &str, detail: String, site: String| Violation { kind: kind.into(), sig: sig.clone(), site, detail, family: "c22".into(), index, schedule: schedule.clone(), data: Value::Null };
        if let End::Panic(m) = end {
            viols.push(mk("panic", m.clone(), panic_site(m)));
            continue;
        }
        for (with, take, sz, trail, errors) in finals {
            if *sz > 0 {
                had_constraints = true;
            }
            for e in errors {
                let kind = if e.contains("process_extension") { "extension-mismatch" } else { "constraint-count" };
                viols.push(mk(kind, e.clone(), String::new()));
            }
            if (*with as i64 - *take as i64) != *sz as i64 {
                viols.push(mk("constraint-count", format!("in an answer state: with_constraint {} - take_constraint {} != {} stored constraints", with, take, sz), String::new()));
            }
            let mut id = 0u16;
            let ends = valid_trail(&p.body, &mut id, trail, 0);
            if !ends.contains(&trail.len()) {
                viols.push(mk("user-state-leak", format!("the statements seen by this answer's user state {:?} are not one path of the program", trail), String::new()));
            }
        }
    }
    viols.dedup_by(|a, b| a.kind == b.kind && a.detail == b.detail);
    (viols, ex.schedules, had_constraints)
}

/// User terms (`LTerm::user`): a pair of non-variable terms one of which is a user term is handed
/// to the `unify` hook, whose documented default refuses — so with a user type that leaves the
/// hook alone a user term unifies with variables only (not even with itself). Hand-written
/// programs over two user terms p, q with the outcome each must have (answers, and
/// `with - take == store size == expected` in every final state).
fn user_term_family(ctx: &mut Ctx) -> u64 {
    use proto_vulcan::GoalCast;
    type L = LTerm<CU, CE>;
    fn eq(a: L, b: L) -> Goal<CU, CE> {
        proto_vulcan::relation::eq::<CU, CE, Goal<CU, CE>>(a, b).cast_into()
    }
    fn diseq(a: L, b: L) -> Goal<CU, CE> {
        proto_vulcan::relation::diseq::<CU, CE, Goal<CU, CE>>(a, b).cast_into()
    }
    let mk_cases = || -> Vec<(&'static str, Box<dyn Fn(&L, &L, &L, &L) -> Vec<Goal<CU, CE>>>, usize, usize)> {
        let l2 = |a: &L, b: &L| -> L { L::from_vec(vec![a.clone(), b.clone()]) };
        vec![
            ("p == p", Box::new(|_x, _y, p, _q| vec![eq(p.clone(), p.clone())]), 0, 0),
            ("p == q", Box::new(|_x, _y, p, q| vec![eq(p.clone(), q.clone())]), 0, 0),
            ("x == p, x == q", Box::new(|x, _y, p, q| vec![eq(x.clone(), p.clone()), eq(x.clone(), q.clone())]), 0, 0),
            ("x == p, x == p", Box::new(|x, _y, p, _q| vec![eq(x.clone(), p.clone()), eq(x.clone(), p.clone())]), 0, 0),
            ("[x, p] == [1, q]", Box::new(move |x, _y, p, q| vec![eq(l2(x, p), l2(&L::from(1isize), q))]), 0, 0),
            ("[x, p] == [1, p]", Box::new(move |x, _y, p, _q| vec![eq(l2(x, p), l2(&L::from(1isize), p))]), 0, 0),
            ("[x, p] != [1, q], x == 1", Box::new(move |x, _y, p, q| vec![diseq(l2(x, p), l2(&L::from(1isize), q)), eq(x.clone(), L::from(1isize))]), 1, 0),
            ("[x, p] != [1, p], x == 1", Box::new(move |x, _y, p, _q| vec![diseq(l2(x, p), l2(&L::from(1isize), p)), eq(x.clone(), L::from(1isize))]), 1, 0),
            ("[x, p] != [1, p]", Box::new(move |x, _y, p, _q| vec![diseq(l2(x, p), l2(&L::from(1isize), p))]), 1, 0),
            ("x != p, x == q", Box::new(|x, _y, p, q| vec![diseq(x.clone(), p.clone()), eq(x.clone(), q.clone())]), 1, 0),
            ("x != p, x == p", Box::new(|x, _y, p, _q| vec![diseq(x.clone(), p.clone()), eq(x.clone(), p.clone())]), 1, 0),
            ("x != p, y != q", Box::new(|x, y, p, q| vec![diseq(x.clone(), p.clone()), diseq(y.clone(), q.clone())]), 1, 2),
            ("p != q", Box::new(|_x, _y, p, q| vec![diseq(p.clone(), q.clone())]), 1, 0),
            ("p != p", Box::new(|_x, _y, p, _q| vec![diseq(p.clone(), p.clone())]), 1, 0),
        ]
    };
    let n = mk_cases().len();
    let sel: Vec<usize> = match &ctx.replay {
        Some(r) if r.family == "c22-user-terms" => vec![r.index],
        Some(_) => vec![],
        None => (0..n).collect(),
    };
    let res: Vec<Option<Violation>> = par_map(&sel, |_, i| {
        crate::ev::progress("c22-user-terms", *i, &Value::Null);
        let cases = mk_cases();
        let (text, build, want_answers, want_store) = &cases[*i];
        let mk = |kind: &str, detail: String, site: String| Some(Violation { kind: kind.into(), sig: text.to_string(), site, detail, family: "c22-user-terms".into(), index: *i, schedule: vec![], data: Value::Null });
        let r = guarded(|| {
            let (x, y): (L, L) = (LTerm::var("x"), LTerm::var("y"));
            let (p, q): (L, L) = (LTerm::user(1u8), LTerm::user(2u8));
            let goal: Goal<CU, CE> = proto_vulcan::operator::conj::Conj::from_vec(build(&x, &y, &p, &q));
            let mut solver: Solver<CU, CE> = Solver::new((), false);
            let mut stream = solver.start(&goal, State::new(CountingUser::default()));
            let mut finals = vec![];
            while let Some(st) = solver.next(&mut stream) {
                finals.push((st.user_state.with, st.user_state.take, store_size(&st)));
                if finals.len() > 10 {
                    break;
                }
            }
            finals
        });
        match r {
            Err(End::Panic(m)) => mk("panic", m.clone(), panic_site(&m)),
            Err(e) => mk("no-termination", format!("{:?}", e), String::new()),
            Ok(finals) => {
                if finals.len() != *want_answers {
                    return mk("user-term-answers", format!("{} answer(s), expected {} (with the default unify hook a user term unifies with variables only)", finals.len(), want_answers), String::new());
                }
                for (w, t, sz) in finals {
                    if (w as i64 - t as i64) != sz as i64 || sz != *want_store {
                        return mk("constraint-count", format!("with_constraint {} - take_constraint {} vs {} stored constraint(s), expected {}", w, t, sz, want_store), String::new());
                    }
                }
                None
            }
        }
    });
    for v in res.into_iter().flatten() {
        ctx.violation(v);
    }
    ctx.hist("user-term-programs", sel.len() as u64);
    sel.len() as u64
}

pub fn run(ctx: &mut Ctx) {
    let quick = ctx.quick();
    let d = if quick { 1 } else { 2 };
    ctx.set("rule", json!("E3 x E2: all ordered sequences of 2-3 statements of a 15-statement alphabet and all 4-statement sequences of the first ten (thorough: all 4-statement sequences of the alphabet and all 5-statement sequences of the first eight) from an alphabet of == / != goals (incl. subsuming and multi-binding disequalities), sequences containing a two-arm conde, and FD programs, run with an instrumented User type; an fngoal probe before and after every statement and every answer state check: with_constraint - take_constraint == number of stored constraints; for every successful `==` process_extension was called once with exactly the bindings unify_rec adds from the same state; the statements recorded in an answer's (per-branch) user state form one path of the program. Each program under every schedule of the store iteration sites with <= d deviations. distinct_nontrivial = programs whose answers carry stored constraints."));
    ctx.set("deviation_bound", json!(d));
    let progs = programs(if quick { 1 } else { 2 });
    let sel: Vec<usize> = match &ctx.replay {
        Some(r) if r.family == "c22" => vec![r.index],
        Some(_) => vec![],
        None => (0..progs.len()).collect(),
    };
    let res = par_map(&sel, |_, i| check(&progs[*i], *i, d));
    let mut schedules = 0u64;
    let mut nontrivial = 0u64;
    for (vs, s, hc) in res {
        schedules += s;
        if hc {
            nontrivial += 1;
            ctx.hist("programs-with-stored-constraints-in-answers", 1);
        }
        for v in vs {
            ctx.violation(v);
        }
    }
    ctx.hist("programs", sel.len() as u64);
    for p in progs.iter().step_by((progs.len() / 4).max(1)).take(4) {
        ctx.sample(json!({"program": p.to_string()}));
    }
    let ut = user_term_family(ctx);
    ctx.set("evaluations", json!(schedules + ut));
    ctx.set("schedules", json!(schedules));
    ctx.set("programs", json!(sel.len()));
    ctx.set("states", json!(sel.len()));
    ctx.set("transitions", json!(schedules));
    ctx.set("traces_validated_against_impl", json!(schedules));
    ctx.set("distinct_nontrivial", json!(nontrivial));
    ctx.require_nonzero("programs-with-stored-constraints-in-answers");
    ctx.assume("constraints created while an answer is reified (walked copies of stored disequalities) go through with_constraint/take_constraint like any other; the count is judged on the states the solver returns");
}
