//! User relations written with the library's macros, shared by the dynamic builder and the
//! compiled surface programs. Their reference definitions are in `refeval`.
use proto_vulcan::engine::Engine;
use proto_vulcan::goal::{AnyGoal, InferredGoal};
use proto_vulcan::lterm::LTerm;
use proto_vulcan::user::User;
use proto_vulcan::operator::conde::cond as conde;
use proto_vulcan::*;

/// same(a, b): a == b
pub fn same<U: User, E: Engine<U>, G: AnyGoal<U, E>>(a: LTerm<U, E>, b: LTerm<U, E>) -> InferredGoal<U, E, G> {
    proto_vulcan!(a == b)
}

/// pairo(a, b, p): p == [a, b]
pub fn pairo<U: User, E: Engine<U>, G: AnyGoal<U, E>>(a: LTerm<U, E>, b: LTerm<U, E>, p: LTerm<U, E>) -> InferredGoal<U, E, G> {
    proto_vulcan!(p == [a, b])
}

/// lasto(l, x): x is the last element of the proper list l. Recursive; every unfolding binds
/// new pattern variables named like the ones of the previous unfolding.
pub fn lasto<U: User, E: Engine<U>, G: AnyGoal<U, E>>(l: LTerm<U, E>, x: LTerm<U, E>) -> InferredGoal<U, E, G> {
    proto_vulcan_closure!(match l {
        [y] => y == x,
        [_ | t] => lasto(t, x),
    })
}

/// zipo(l, p): p is the list of pairs [e, e] of the elements of l. Recursive with a fresh
/// clause in its body: every unfolding introduces new `h`, `t`, `r`.
pub fn zipo<U: User, E: Engine<U>, G: AnyGoal<U, E>>(l: LTerm<U, E>, p: LTerm<U, E>) -> InferredGoal<U, E, G> {
    proto_vulcan_closure!(conde {
        [l == [], p == []],
        |h, t, r| {
            l == [h | t],
            p == [[h, h] | r],
            zipo(t, r),
        }
    })
}

/// neqo(a, b): a != b
pub fn neqo<U: User, E: Engine<U>, G: AnyGoal<U, E>>(a: LTerm<U, E>, b: LTerm<U, E>) -> InferredGoal<U, E, G> {
    proto_vulcan!(a != b)
}

/// projo(x, y): y == [x], reading x through `project` (x must be bound when the goal is reached)
pub fn projo<U: User, E: Engine<U>, G: AnyGoal<U, E>>(x: LTerm<U, E>, y: LTerm<U, E>) -> InferredGoal<U, E, G> {
    proto_vulcan_closure!(project |x| { y == [x] })
}

/// cello(a, b): for a fresh w, a == [1 | w] or b == [2 | w]
pub fn cello<U: User, E: Engine<U>, G: AnyGoal<U, E>>(a: LTerm<U, E>, b: LTerm<U, E>) -> InferredGoal<U, E, G> {
    proto_vulcan_closure!(|w| {
        conde {
            a == [1 | w],
            b == [2 | w],
        }
    })
}

/// twiceo(a, b): cello(a, b) twice — written by posting ONE goal value twice (a goal is a value:
/// every time it is solved its fresh variables are new)
pub fn twiceo<U: User, E: Engine<U>, G: AnyGoal<U, E>>(a: LTerm<U, E>, b: LTerm<U, E>) -> InferredGoal<U, E, G> {
    let g: InferredGoal<U, E, G> = cello::<U, E, G>(a, b);
    let g2 = g.clone();
    proto_vulcan!([g, g2])
}

/// botho(x, a, b): x == a and x == b (one argument term used by two goals)
pub fn botho<U: User, E: Engine<U>, G: AnyGoal<U, E>>(x: LTerm<U, E>, a: LTerm<U, E>, b: LTerm<U, E>) -> InferredGoal<U, E, G> {
    proto_vulcan!([x == a, b == x])
}

pub fn call<U: User, E: Engine<U>, G: AnyGoal<U, E>>(name: &str, a: Vec<LTerm<U, E>>) -> G {
    use proto_vulcan::GoalCast;
    match name {
        "same" => same::<U, E, G>(a[0].clone(), a[1].clone()).cast_into(),
        "pairo" => pairo::<U, E, G>(a[0].clone(), a[1].clone(), a[2].clone()).cast_into(),
        "lasto" => lasto::<U, E, G>(a[0].clone(), a[1].clone()).cast_into(),
        "zipo" => zipo::<U, E, G>(a[0].clone(), a[1].clone()).cast_into(),
        "neqo" => neqo::<U, E, G>(a[0].clone(), a[1].clone()).cast_into(),
        "projo" => projo::<U, E, G>(a[0].clone(), a[1].clone()).cast_into(),
        "cello" => cello::<U, E, G>(a[0].clone(), a[1].clone()).cast_into(),
        "twiceo" => twiceo::<U, E, G>(a[0].clone(), a[1].clone()).cast_into(),
        "botho" => botho::<U, E, G>(a[0].clone(), a[1].clone(), a[2].clone()).cast_into(),
        other => panic!("unknown user relation {}", other),
    }
}
