//! Runner of the generated surface-syntax programs (E5). `src/generated/` is rewritten by
//! `pvmc gen <ID> <tier>` before this crate is built, so the programs are compiled with the
//! current proc-macros of /repo.
#![allow(non_snake_case)]
mod generated;

pub mod prelude {
    pub use proto_vulcan::lresult::LResult;
    pub use proto_vulcan::lterm::LTerm;
    pub use proto_vulcan::operator::{cond, conda, conde, condu, dfs, matcha, matche, matchu, onceo};
    pub use proto_vulcan::prelude::*;
    pub use proto_vulcan::relation::{append, cons, empty, first, member, rest};
    pub use pvmc::conv::cmp::*;
    pub use pvmc::run::{DE, DU};
    pub use pvmc::userrel::{botho, cello, lasto, neqo, pairo, projo, same, twiceo, zipo};

    /// Goal-valued Rust functions used as *expression* clauses (`crate::prelude::eq_int(x.clone(), 5)`)
    /// and from inside `fngoal` bodies.
    pub fn eq_int(t: LTerm<DU, DE>, k: isize) -> Goal<DU, DE> {
        let kt: LTerm<DU, DE> = LTerm::from(k);
        proto_vulcan!(t == kt)
    }

    pub fn unify_int(state: proto_vulcan::state::State<DU, DE>, t: &LTerm<DU, DE>, k: isize) -> proto_vulcan::stream::Stream<DU, DE> {
        match state.unify(t, &LTerm::from(k)) {
            Ok(s) => proto_vulcan::stream::Stream::unit(Box::new(s)),
            Err(_) => proto_vulcan::stream::Stream::empty(),
        }
    }

    pub fn prelude_fail() -> Goal<DU, DE> {
        Goal::fail()
    }

    /// Runs a goal built with `proto_vulcan!` the way `proto_vulcan_query!` would.
    pub fn run_goal(qvars: Vec<LTerm<DU, DE>>, goal: Goal<DU, DE>, max: usize) -> Vec<Vec<LResult<DU, DE>>> {
        let (vars, g) = pvmc::conv::wrap_query::<DU, DE>(qvars, goal);
        let query: proto_vulcan::query::Query<pvmc::conv::Row<DU, DE>, DU, DE> = proto_vulcan::query::Query::new(vars, g);
        query.run().take(max).map(|row| row.0).collect()
    }
}

use pvmc::ast::*;
use pvmc::conv::{decode_row, Ans, Row};
use pvmc::den::Den;
use pvmc::ev::{self, Ctx, Violation};
use pvmc::refeval::reference_answers;
use pvmc::refm::{ansset_of_observed, atoms_of_goals, fresh_atoms, AnsSet, Universe};
use pvmc::run::{guarded, panic_site, End};
use serde_json::{json, Value};
use std::collections::HashMap;

fn run_case(i: usize, max: usize, budget: u64) -> (Vec<Ans>, End) {
    proto_vulcan::verif::reset_steps();
    proto_vulcan::verif::set_budget(budget);
    let r = guarded(|| generated::run(i, max + 1));
    proto_vulcan::verif::set_budget(u64::MAX);
    match r {
        Ok(Some(rows)) => {
            let n = rows.len();
            let answers: Vec<Ans> = rows.into_iter().take(max).map(|r| decode_row(&Row(r))).collect();
            (answers, if n > max { End::Limit } else { End::Exhausted })
        }
        Ok(None) => (vec![], End::Panic("case missing from the generated sources".into())),
        Err(e) => (vec![], e),
    }
}

fn main() {
    let args: Vec<String> = std::env::args().collect();
    let id = generated::ID;
    let tier = if generated::QUICK { "quick" } else { "thorough" };
    if args.len() >= 3 && (args[1] != id || args[2] != tier) {
        eprintln!("machinery error: generated sources are for {} {}, asked for {} {}", id, tier, args[1], args[2]);
        std::process::exit(2);
    }
    pvmc::run::install_quiet_panic_hook();
    let mut ctx = Ctx::new(id, tier);
    if let Ok(j) = std::env::var("PVMC_REPLAY_JSON") {
        if let Ok(v) = serde_json::from_str::<Value>(&j) {
            ctx.replay = Some(ev::Replay { family: v["family"].as_str().unwrap_or("").into(), index: v["index"].as_u64().unwrap_or(0) as usize, schedule: vec![], data: Value::Null });
        }
    }
    let cases = pvmc::surface::cases(id, generated::QUICK);
    if cases.len() != generated::CASES {
        eprintln!("machinery error: generated sources are stale ({} cases, expected {})", generated::CASES, cases.len());
        std::process::exit(2);
    }
    let family = format!("{}-surface", id.to_lowercase());
    let rule = match id {
        "C13" => "E5: match / matche / matcha / matchu expressions generated as surface syntax and compiled with the current macros: every pattern of the pattern alphabet (wildcard, names, repeated names, literals, [], proper/improper list patterns, tuple-struct / named-struct / nested compound patterns, a name equal to an outer variable) x 10 matched terms x 5 bodies as single arms, and two/three-arm expressions with alternatives under all four operators; compared with the reference expansion (disjunction over arms x alternatives of t == p under arm-local fresh names, then the body; committed choice for matcha / matchu).",
        "C14" => "E5: the clause grammar as surface syntax compiled with the current macros: every literal kind in argument / list item / improper tail / nested position, `_`, nested proper and improper lists, tuple-struct and tuple constructors on both sides of == and != and as relation arguments in tree-term, {expr} and lterm! forms; conjunctions, conde with bare and bracketed arms, fresh, closure (nested), `fngoal` (plain and `move`, capturing a variable) and goal-valued Rust expressions (path call, block) in place of true / false / `x == n` in a quarter of the programs, onceo / conda / condu / dfs operator calls, loop{} prefixes under take, library and user relation calls, for over a Vec and over an LTerm list, project; proto_vulcan_query! with 1-3 query variables reported per variable in declaration order; compared with the reference interpreter on the same AST.",
        _ => "E5: programs with shadowing (nested fresh clauses reusing a name, a fresh clause shadowing a query variable's name), the same names in sibling scopes, fresh clauses inside conde arms and closures, pattern arms binding the names of an enclosing fresh clause, and recursive relations (zipo, lasto) whose every unfolding introduces variables of the same names, one goal value posted twice (twiceo: each solving has its own fresh variables) — each compiled as written and alpha-renamed (every binder unique): both must have the answers of the lexically scoped reference interpreter.",
    };
    ctx.set("rule", json!(rule));
    let mut dens: HashMap<(Vec<T>, u32), Den> = HashMap::new();
    let mut evaluated = 0u64;
    let mut nontrivial = 0u64;
    let mut answers_of: HashMap<usize, Vec<Vec<u64>>> = HashMap::new();
    for (i, c) in cases.iter().enumerate() {
        if !ctx.selected(&family, i) {
            continue;
        }
        ev::progress(&family, i, &Value::Null);
        evaluated += 1;
        let text = pvmc::surface::program_text(c, i);
        let mk = |kind: &str, detail: String, site: String| Violation { kind: kind.into(), sig: text.clone(), site, detail, family: family.clone(), index: i, schedule: vec![], data: Value::Null };
        let reference: Option<Vec<AnsSet>> = reference_answers(&c.program);
        let (answers, end) = run_case(i, c.take, 300_000);
        if let End::Panic(m) = &end {
            ctx.violation(mk("panic", m.clone(), panic_site(m)));
            continue;
        }
        let reference = match reference {
            Some(r) => r,
            None => {
                ctx.hist("reference-out-of-fuel", 1);
                continue;
            }
        };
        // denotations over a universe built from the program's constants
        let mut atoms = vec![];
        atoms_of_goals(&c.program.body, &mut atoms);
        atoms.sort();
        atoms.truncate(4);
        let key = (atoms.clone(), c.program.nq);
        let den = dens.entry(key).or_insert_with(|| {
            let mut a = atoms.clone();
            a.extend(fresh_atoms(2));
            let structured = c.program.nq <= 2;
            let mut u = Universe::new(&a, &[Tag::Pair, Tag::Box1], structured, c.program.nq as usize);
            if c.program.nq >= 3 {
                u.values.truncate(8);
            }
            Den::new(u)
        });
        let got: Vec<Vec<u64>> = answers.iter().map(|a| den.bits(&ansset_of_observed(&a.terms, &a.cons)).as_ref().clone()).collect();
        let exp: Vec<Vec<u64>> = reference.iter().map(|a| den.bits(a).as_ref().clone()).collect();
        let show = |v: &Vec<Ans>| v.iter().map(|a| a.to_string()).collect::<Vec<_>>();
        let showr = |v: &Vec<AnsSet>| v.iter().map(|a| format!("({}){}", a.tuple.iter().map(|t| t.to_string()).collect::<Vec<_>>().join(", "), if a.neqs.is_empty() { String::new() } else { format!(" where {:?}", a.neqs) })).collect::<Vec<_>>();
        // a loop{} prefix never ends: the answer limit or (with a body that has no answers) the
        // step budget stops it
        let looped = c.take < 50 && (end == End::Limit || end == End::Budget);
        if looped {
            // a loop{} prefix: every answer of the bounded prefix must be a reference answer
            // (the reference of `loop { g }` is g's answers, repeated)
            let body_ref: Vec<Vec<u64>> = exp.clone();
            for (k, g) in got.iter().enumerate() {
                if !body_ref.contains(g) {
                    ctx.violation(mk("invented-answer", format!("answer {} of the prefix {:?} is not an answer of the looped body {:?}", k, show(&answers), showr(&reference)), String::new()));
                    break;
                }
            }
            ctx.hist("loop-prefix", 1);
            continue;
        }
        if end != End::Exhausted {
            ctx.violation(mk("no-termination", format!("{:?}; answers so far {:?}; reference {:?}", end, show(&answers), showr(&reference)), String::new()));
            continue;
        }
        let (mut gs, mut es) = (got.clone(), exp.clone());
        if !c.ordered {
            gs.sort();
            es.sort();
        }
        // the TERMS of the answers must agree up to renaming of the reified variables (the finite
        // universe of the denotations cannot tell deep terms apart): both sides bind the query
        // variables by most general unifiers, so corresponding answers are variants
        let is_ground = |ts: &Vec<T>| {
            let mut vs = vec![];
            ts.iter().for_each(|t| t.vars(&mut vs));
            vs.is_empty()
        };
        let mut ground_got: Vec<Vec<T>> = answers.iter().map(|a| pvmc::refm::canon_tuple(&a.terms)).collect();
        let mut ground_exp: Vec<Vec<T>> = vec![];
        for a in reference.iter() {
            // a residual disequality over ground terms whose pairs are all equal is violated:
            // such a reference answer denotes nothing
            let violated = a.neqs.iter().any(|d| d.iter().all(|(l, r)| is_ground(&vec![l.clone(), r.clone()]) && l == r));
            if !violated {
                let t: Vec<T> = a.tuple.iter().map(|t| t.strip_some()).collect();
                ground_exp.push(pvmc::refm::canon_tuple(&t));
            }
        }
        ground_got.sort();
        ground_exp.sort();
        if gs != es {
            let kind = if got.len() != exp.len() { "answer-count" } else if c.ordered { "wrong-or-misordered-answers" } else { "wrong-answers" };
            ctx.violation(mk(kind, format!("compiled program answers {:?}; reference semantics {:?}", show(&answers), showr(&reference)), String::new()));
        } else if ground_got != ground_exp {
            ctx.violation(mk("wrong-answers", format!("the answer terms differ (up to renaming): compiled program {:?}; reference semantics {:?}", show(&answers), showr(&reference)), String::new()));
        } else if !answers.is_empty() {
            nontrivial += 1;
            ctx.hist("programs-with-answers", 1);
        } else {
            ctx.hist("programs-without-answers", 1);
        }
        // query-variable order (C14): the values 10, 11, 12 must land in declaration order
        if id == "C14" && c.as_query && c.program.body.iter().all(|g| matches!(g, G::Eq(T::V(_), T::I(n)) if *n >= 10)) {
            if let Some(a) = answers.first() {
                for (k, t) in a.terms.iter().enumerate() {
                    if *t != T::I(10 + k as i64) {
                        ctx.violation(mk("query-variable-order", format!("query variable #{} reports {}", k, t), String::new()));
                    }
                }
                ctx.hist("query-order-checked", 1);
            }
        }
        // answers in the order delivered: a consistent renaming changes nothing, not even the
        // order (the engine is deterministic and names play no role in it)
        answers_of.insert(i, got.clone());
        if let Some(j) = c.twin_of {
            if let Some(orig) = answers_of.get(&j) {
                if *orig != *answers_of.get(&i).unwrap() {
                    ctx.violation(mk("alpha-renaming-changes-answers", format!("the program as written (case {}) and this alpha-renamed twin have different answers", j), String::new()));
                } else {
                    ctx.hist("alpha-twins-agree", 1);
                }
            }
        }
        if i % (cases.len() / 6).max(1) == 0 {
            ctx.sample(json!({"index": i, "surface_program": text, "form": if c.as_query { "proto_vulcan_query!" } else { "proto_vulcan!" }, "answers": answers.len()}));
        }
    }
    ev::progress_clear();
    // C14: `lterm!` denotes the written term
    if id == "C14" && ctx.replay.is_none() {
        let env: pvmc::conv::Env<prelude::DU, prelude::DE> = pvmc::conv::Env::new(2);
        // every term is written twice: flat, and with list literals in tail position
        let expected: Vec<T> = pvmc::surface::c14_lterm_terms().into_iter().flat_map(|t| vec![t.clone(), t]).collect();
        match guarded(|| generated::lterms(&env.vars[0], &env.vars[1])) {
            Ok(built) => {
                if built.len() != expected.len() {
                    ctx.machinery_errors.push("generated lterm! list is stale".into());
                }
                fn same(a: &T, b: &T) -> bool {
                    match (a, b) {
                        (T::W, T::A(_)) => true,
                        (T::Cons(h1, t1), T::Cons(h2, t2)) => same(h1, h2) && same(t1, t2),
                        (x, y) => x == y,
                    }
                }
                for (k, (e, l)) in expected.iter().zip(built.iter()).enumerate() {
                    let mut dec = pvmc::conv::Dec::new(Some(&env));
                    let got = dec.dec(l);
                    evaluated += 1;
                    // every `_` must be its own anonymous variable
                    let distinct_anys = dec.any_flags.iter().all(|f| *f);
                    if !same(e, &got) || !distinct_anys {
                        ctx.violation(Violation { kind: "lterm-differs".into(), sig: format!("lterm!({})", pvmc::surface::term(e, false)), site: String::new(), detail: format!("lterm! builds {}", got), family: family.clone(), index: 100_000 + k, schedule: vec![], data: Value::Null });
                    } else {
                        ctx.hist("lterm-terms", 1);
                    }
                }
            }
            Err(e) => ctx.violation(Violation { kind: "panic".into(), sig: "lterm! list".into(), site: String::new(), detail: format!("{:?}", e), family: family.clone(), index: 100_000, schedule: vec![], data: Value::Null }),
        }
    }
    ctx.set("evaluations", json!(evaluated));
    ctx.set("programs", json!(evaluated));
    ctx.set("states", json!(evaluated));
    ctx.set("transitions", json!(evaluated));
    ctx.set("traces_validated_against_impl", json!(evaluated));
    ctx.set("distinct_nontrivial", json!(nontrivial));
    if ctx.replay.is_none() {
        ctx.require_nonzero("programs-with-answers");
        ctx.require_nonzero("programs-without-answers");
        if id == "C15" {
            ctx.require_nonzero("alpha-twins-agree");
        }
        if id == "C14" {
            ctx.require_nonzero("query-order-checked");
            ctx.require_nonzero("loop-prefix");
        }
    }
    ctx.assume("the generated programs are compiled with the proc-macros of /repo's current tree; identifiers are drawn from a fixed set of names (macro hygiene against arbitrary user identifiers is out of reach)");
    ctx.assume("instance sets are tabulated over a finite universe built from each program's constants");
    std::process::exit(ev::finish(ctx));
}
